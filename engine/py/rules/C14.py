"""C14 - adapter framing (enhanced protocol codec and transport buffer), structural clauses.

C14.R1 (core) codec bit layout: decode(encode(cmd, data)) is the identity on all bits; constants equal docs/enhanced_proto.md
C14.R2 (core) every response symbol has a case in the decoder switch; request sites use the right request symbol
C14.R3 (core) the buffered data is consumed exactly once per call, and the second byte is only read when it is buffered
C14.R4 (core) RESULT_CONTINUE (more) is only signalled for a complete further item; a symbol is stored at most once per call
C14.R6        info buffer write is bounded
C14.R7        plain transport: append at the fill position, consume by moving the tail
"""
import os
import re

import facts
from facts import AnalysisBroken
import rules.bits as bits

HDR = 'lib/ebus/device_enhanced.h'
DEC = 'ebusd::EnhancedDevice::handleEnhancedBufferedData'


def macro_names():
    path = os.path.join(facts.REPO, 'src', HDR)
    try:
        txt = open(path).read()
    except OSError:
        raise AnalysisBroken('C14: %s not found' % HDR)
    return sorted(set(re.findall(r'#define\s+(ENH_\w+)\b', txt)))


def doc_symbols():
    path = os.path.join(facts.REPO, 'docs', 'enhanced_proto.md')
    res = {'req': {}, 'res': {}, 'err': {}}
    try:
        txt = open(path).read()
    except OSError:
        return None
    sect = None
    for line in txt.splitlines():
        if line.startswith('### Command request symbols'):
            sect = 'req'
        elif line.startswith('### Command response symbols'):
            sect = 'res'
        elif line.startswith('### Error codes'):
            sect = 'err'
        elif line.startswith('###') or line.startswith('## '):
            sect = None if not line.startswith('### ') or sect is None else None
        m = re.match(r'\s*\*\s+(\w+)\s+(0x[0-9a-fA-F]+)', line)
        if m and sect:
            res[sect][m.group(1)] = int(m.group(2), 16)
    pic = re.search(r'(1[01c]{7})\s+(1[01d]{7})', txt)
    res['picture'] = pic.groups() if pic else None
    return res


def probe():
    names = macro_names()
    vals = facts.macro_values([HDR], names)
    # function-like macros evaluated on a basis (constant folding by the compiler front end)
    basis = {}
    pdir_names = []
    exprs = {'B1_0_0': 'makeEnhancedByte1(0, 0)', 'B2_0_0': 'makeEnhancedByte2(0, 0)'}
    for i in range(4):
        exprs['B1_c%d' % i] = 'makeEnhancedByte1(%d, 0)' % (1 << i)
        exprs['B2_c%d' % i] = 'makeEnhancedByte2(%d, 0)' % (1 << i)
    for i in range(8):
        exprs['B1_d%d' % i] = 'makeEnhancedByte1(0, %d)' % (1 << i)
        exprs['B2_d%d' % i] = 'makeEnhancedByte2(0, %d)' % (1 << i)
    fvals = macro_exprs([HDR], exprs)
    return vals, fvals


def macro_exprs(headers, exprs):
    import hashlib
    import shutil
    os.makedirs(facts.CACHE, exist_ok=True)
    pdir = os.path.join(facts.CACHE, 'probe_e_%d' % os.getpid())
    os.makedirs(pdir, exist_ok=True)
    path = os.path.join(pdir, 'probe.cpp')
    with open(path, 'w') as fh:
        fh.write('#include <stdint.h>\n')
        for h in headers:
            fh.write('#include "%s"\n' % h)
        fh.write('namespace ebusd_probe {\n')
        for n, e in sorted(exprs.items()):
            fh.write('static const unsigned long long P_%s = (unsigned long long)(%s);\n' % (n, e))
        fh.write('}\n')
    try:
        d = facts.extract_file(path, root=pdir)
    finally:
        shutil.rmtree(pdir, ignore_errors=True)
    res = {}
    for g in d.get('globals', []):
        nm = g['name'].split('::')[-1]
        if nm.startswith('P_') and isinstance(g.get('init'), int):
            res[nm[2:]] = g['init']
    return res


def encode_bits(fvals):
    """bit lists of byte1 / byte2 as functions of cmd (4 bit) and data (8 bit) from the basis evaluation"""
    out = {}
    for b in ('B1', 'B2'):
        base = fvals.get(b + '_0_0')
        if base is None:
            raise AnalysisBroken('C14.R1: makeEnhancedByte macros could not be evaluated')
        lst = bits.const(base)
        for i in range(4):
            delta = fvals[b + '_c%d' % i] & ~base
            for j in range(8):
                if (delta >> j) & 1:
                    lst[j] = ('v', 'cmd', i) if lst[j] == 0 else None
        for i in range(8):
            delta = fvals[b + '_d%d' % i] & ~base
            for j in range(8):
                if (delta >> j) & 1:
                    lst[j] = ('v', 'data', i) if lst[j] == 0 else None
        out[b] = lst
    return out


def r1(ctx):
    ctx.rule('C14.R1', 'with byte1/byte2 = makeEnhancedByte1/2(cmd, data) (evaluated by the compiler on a bit basis) and the '
             'decoder\'s own expressions for command and data, decode(encode(cmd, data)) = (cmd, data) on all 4+8 bits; the '
             'first byte starts with bits 11, the second with 10; the flag/mask constants and all request/response/error '
             'symbols equal docs/enhanced_proto.md', minimum=6, star=True)
    fb = ctx.fb
    vals, fvals = probe()
    enc = encode_bits(fvals)
    fn = fb.fn(DEC)
    ctx.touch(fn)
    # decoder expressions: locals initialised from ch / ch2
    ch = ch2 = None
    defs = {}
    for nid, d, rhs, op, lhs in fn.assignments():
        if op == 'init' and rhs is not None and d:
            defs[d.split(':')[-1]] = rhs
    # ch = data[pos]; ch2 = data[pos] after pos++ : identify by order of definition from a subscript
    subs = [(fn.line_of(r), n) for n, r in defs.items() if fn.nodes.get(fn.strip(r, casts=True), {}).get('k') == 'ArraySubscriptExpr']
    subs.sort()
    if len(subs) < 2:
        raise AnalysisBroken('C14.R1: first/second byte variables not recognised in the decoder')
    ch, ch2 = subs[0][1], subs[1][1]
    env = {ch: bits.var('b1', 8), ch2: bits.var('b2', 8)}
    cand = {}
    for n, r in defs.items():
        if n in (ch, ch2):
            continue
        bl = bits.evaluate(fn, r, env)
        srcs = set(x[1] for x in bl if isinstance(x, tuple))
        if srcs:
            cand[n] = bl
    # compose with the encoder
    inner = {'b1': enc['B1'], 'b2': enc['B2']}
    got_cmd = got_data = None
    for n, bl in cand.items():
        comp = bits.compose(bl, inner)
        srcs = set(x[1] for x in comp if isinstance(x, tuple))
        if srcs == {'cmd'}:
            got_cmd = (n, comp)
        elif srcs == {'data'} and len([x for x in comp if isinstance(x, tuple)]) == 8:
            got_data = (n, comp)
    okc = got_cmd is not None and got_cmd[1][:4] == [('v', 'cmd', i) for i in range(4)] and all(x == 0 for x in got_cmd[1][4:])
    okd = got_data is not None and got_data[1][:8] == [('v', 'data', i) for i in range(8)] and all(x == 0 for x in got_data[1][8:])
    ctx.ob('C14.R1', fn, defs.get(got_cmd[0]) if got_cmd else fn.body, okc, 'command bits round trip',
           'decoded command = %s' % (got_cmd[1][:8] if got_cmd else 'not found'))
    ctx.ob('C14.R1', fn, defs.get(got_data[0]) if got_data else fn.body, okd, 'data bits round trip',
           'decoded data = %s' % (got_data[1][:8] if got_data else 'not found'))
    # leading bits 11 / 10
    ok11 = enc['B1'][7] == 1 and enc['B1'][6] == 1 and enc['B2'][7] == 1 and enc['B2'][6] == 0
    ctx.ob('C14.R1', fn, fn.body, ok11, 'frame markers', 'byte1 bits7..6=%s%s byte2 bits7..6=%s%s' % (
        enc['B1'][7], enc['B1'][6], enc['B2'][7], enc['B2'][6]))
    okm = vals.get('ENH_BYTE_FLAG') == 0x80 and vals.get('ENH_BYTE_MASK') == 0xC0 and vals.get('ENH_BYTE1') == 0xC0 and \
        vals.get('ENH_BYTE2') == 0x80
    ctx.ob('C14.R1', fn, fn.body, okm, 'kind constants', 'FLAG=%s MASK=%s BYTE1=%s BYTE2=%s' % tuple(
        vals.get(k) for k in ('ENH_BYTE_FLAG', 'ENH_BYTE_MASK', 'ENH_BYTE1', 'ENH_BYTE2')))
    doc = doc_symbols()
    if doc is None or not doc['res']:
        ctx.note('docs/enhanced_proto.md not parseable: symbol comparison uses the frozen table')
        doc = {'req': {'INIT': 0, 'SEND': 1, 'START': 2, 'INFO': 3},
               'res': {'RESETTED': 0, 'RECEIVED': 1, 'STARTED': 2, 'INFO': 3, 'FAILED': 10, 'ERROR_EBUS': 11, 'ERROR_HOST': 12},
               'err': {'ERR_FRAMING': 0, 'ERR_OVERRUN': 1}}
    for sect, prefix in (('req', 'ENH_REQ_'), ('res', 'ENH_RES_'), ('err', 'ENH_')):
        for name, v in sorted(doc[sect].items()):
            got = vals.get(prefix + name)
            ctx.ob('C14.R1', fn, fn.body, got == v, 'symbol %s%s' % (prefix, name), 'header %s, protocol definition %s' % (got, v),
                   nontrivial=False)
    return vals


def r2(ctx, vals):
    ctx.rule('C14.R2', 'every response symbol defined in device_enhanced.h (ENH_RES_*) is a case of the decoder\'s command '
             'switch, and each request is encoded with its own request symbol (send: SEND, arbitration: START, info: INFO, '
             'open/init: INIT)', minimum=8, star=True)
    fb = ctx.fb
    fn = fb.fn(DEC)
    labels = set()
    for b in fn.blocks.values():
        if b.tk == 'SwitchStmt':
            for s in b.succs:
                if s is not None and fn.blocks[s].label and fn.blocks[s].label.get('kind') == 'case':
                    labels.add(fn.blocks[s].label.get('v'))
    for name, v in sorted(vals.items()):
        if name.startswith('ENH_RES_'):
            ctx.ob('C14.R2', fn, fn.body, v in labels, 'response %s handled' % name, 'case %d present: %s' % (v, v in labels))
    want = {'ebusd::EnhancedDevice::send': 'ENH_REQ_SEND', 'ebusd::EnhancedDevice::startArbitration': 'ENH_REQ_START',
            'ebusd::EnhancedDevice::requestEnhancedInfo': 'ENH_REQ_INFO'}
    for fname, macro in sorted(want.items()):
        f = fb.fn(fname)
        ctx.touch(f)
        used = set()
        for nid, v in f.nodes.items():
            if v.get('mac') in ('makeEnhancedSequence', 'makeEnhancedByte1', 'makeEnhancedByte2') and v['k'] == 'InitListExpr':
                pass
        # the first array element is (0xC0 | cmd<<2 | data>>6): recover cmd from an evaluated constant sub-expression
        cmds = set()
        for nid, v in f.nodes.items():
            if v['k'] == 'BinaryOperator' and v.get('op') == '<<' and f.val(v['rhs']) == 2 and f.val(v['lhs']) is not None and \
                    v.get('mac'):
                cmds.add(f.val(v['lhs']))
        ctx.ob('C14.R2', f, f.body, cmds == {vals.get(macro)}, 'request symbol in %s' % fname.split('::')[-1],
               'uses command(s) %s, expected %s=%s' % (sorted(cmds), macro, vals.get(macro)))


def r3(ctx, vals):
    ctx.rule('C14.R3', 'handleEnhancedBufferedData consumes the transport buffer exactly once per call (one readConsumed on '
             'every path to the exit, outside the loop), and the second byte of a sequence is read only after the test that '
             'it is buffered: a lone first byte stays in the buffer', minimum=3, star=True)
    fb = ctx.fb
    fn = fb.fn(DEC)
    cons = [c for c in fn.all('CXXMemberCallExpr') if (fn.nodes[c].get('callee') or '').endswith('::readConsumed')]
    loops = fn.all('ForStmt', 'WhileStmt', 'DoStmt')
    inloop = set()
    for l in loops:
        inloop |= set(fn.walk(l))
    ok = len(cons) == 1 and cons[0] not in inloop and not fn.reaches_point(fn.entry, (fn.exit, 0), set(cons))
    ctx.ob('C14.R3', fn, cons[0] if cons else fn.body, ok, 'consume exactly once',
           '%d readConsumed call(s), outside loops, on every path to the exit: %s' % (len(cons), ok))
    # second subscript read
    subs = buffer_reads(fn)
    if len(subs) < 2:
        raise AnalysisBroken('C14.R3: buffer reads not recognised')
    second = subs[1][1]
    idx = fn.key(fn.nodes[second]['idx'])
    ln = fn.P(1)
    # the completeness test: (kind == BYTE1 && len < pos + 2) -> break. Its being false plus kind != BYTE2 plus the flag
    # bit being set leaves kind == BYTE1 and len >= pos + 2.
    b1, b2, mask, flag = vals.get('ENH_BYTE1'), vals.get('ENH_BYTE2'), vals.get('ENH_BYTE_MASK'), vals.get('ENH_BYTE_FLAG')
    two_valued = mask is not None and flag is not None and (mask & flag) == flag and bin(mask).count('1') == 2 and \
        {b1, b2} == {mask, flag}
    # weaker: the test exists on every path either as "kind != BYTE1" or "len >= pos+2"; combine with kind == BYTE2 -> continue
    kindvar = None
    for nid, d, rhs, op, lhs in fn.assignments():
        if op == 'init' and rhs is not None and ('& #%d)' % mask) in fn.key(rhs):
            kindvar = d.split(':')[-1]
    alts = [('(%s < (%s + #2))' % (ln, idx), False)]
    if kindvar:
        alts.append(('(%s == #%d)' % (kindvar, b1), False))
    passes_test = fn.needs_one_of(second, alts)
    not_b2 = kindvar is not None and fn.needs_one_of(second, [('(%s == #%d)' % (kindvar, b2), False)])
    flagged = fn.needs_one_of(second, [('(%s & #%d)' % (subs_var(fn, subs[0][1]), flag), True)])
    ok = two_valued and passes_test and not_b2 and flagged
    ctx.ob('C14.R3', fn, second, ok, 'second byte read is covered by the completeness test',
           'kind is two-valued under the flag bit: %s; path passes (kind != BYTE1 or len >= pos+2): %s; kind != BYTE2: %s; '
           'flag bit set: %s' % (two_valued, passes_test, not_b2, flagged))
    # the increment of the cursor before the second read comes after the completeness test
    incs = [nid for nid, d, rhs, op, lhs in fn.assignments() if op == '++' and d and d.split(':')[-1] == idx and
            fn.line_of(nid) < fn.line_of(second) and fn.line_of(nid) > subs[0][0]]
    ok2 = bool(incs) and all(fn.needs_one_of(i, alts) for i in incs)
    ctx.ob('C14.R3', fn, incs[0] if incs else second, ok2, 'lone first byte is not consumed',
           'cursor advanced past the first byte only after the completeness test: %s' % ok2)


def buffer_reads(fn):
    """subscript reads of the buffer parameter (first parameter; a later local may shadow its name), in source order"""
    pd = fn.params[0].get('decl') if fn.params else None
    out = []
    for n in fn.all('ArraySubscriptExpr'):
        b = fn.nodes.get(fn.strip(fn.nodes[n]['base'], casts=True), {})
        if b.get('k') == 'DeclRefExpr' and b.get('rk') == 'param' and (pd is None or b.get('decl') == pd) and b.get('name') == fn.P(0):
            out.append((fn.line_of(n), n))
    return sorted(out)


def more_var(ctx, fn):
    """the local whose truth makes the function return RESULT_CONTINUE"""
    cont = None
    for en, e in ctx.fb.enums.items():
        for x in e['enumerators']:
            if x['name'] == 'RESULT_CONTINUE':
                cont = x['v']
    for nid, v in fn.nodes.items():
        if v['k'] == 'ConditionalOperator' and cont is not None and fn.val(v.get('then')) == cont:
            return fn.key(v['cond'])
    return None


def subs_var(fn, sub):
    """name of the local initialised from the subscript node"""
    for nid, d, rhs, op, lhs in fn.assignments():
        if op == 'init' and rhs is not None and fn.strip(rhs, casts=True) == sub:
            return d.split(':')[-1]
    return '?'


def r4(ctx, vals):
    ctx.mark('enhanced-decoder', 'C14.R4')
    ctx.rule('C14.R4', 'RESULT_CONTINUE is announced (more = true) only when a complete further item is buffered: a plain '
             'byte, or a two-byte sequence that passed the completeness test; and *value is stored only while no value was '
             'stored before in this call; a deferred two-byte sequence is left in the buffer as a whole', minimum=4, star=True)
    fb = ctx.fb
    fn = fb.fn(DEC)
    flag = vals.get('ENH_BYTE_FLAG')
    subs = buffer_reads(fn)
    if not subs:
        raise AnalysisBroken('C14.R4: buffer reads not recognised')
    ch = subs_var(fn, subs[0][1])
    idx = fn.key(fn.nodes[subs[0][1]]['idx'])
    ln = fn.P(1)
    mv = more_var(ctx, fn)
    if mv is None:
        raise AnalysisBroken('C14.R4: the return of RESULT_CONTINUE was not recognised')
    # every assignment that may set the flag (a constant true or a computed value)
    mores = [nid for nid, d, rhs, op, lhs in fn.assignments() if d and d.endswith(':' + mv) and rhs is not None and fn.val(rhs) != 0 and op != 'init']
    if len(mores) < 1:
        raise AnalysisBroken('C14.R4: "more" assignments not recognised')
    b1, b2, mask = vals.get('ENH_BYTE1'), vals.get('ENH_BYTE2'), vals.get('ENH_BYTE_MASK')
    kindvar = None
    for nid, d, rhs, op, lhs in fn.assignments():
        if op == 'init' and rhs is not None and ('& #%d)' % mask) in fn.key(rhs):
            kindvar = d.split(':')[-1]
    for m in mores:
        plain = fn.needs_one_of(m, [('(%s & #%d)' % (ch, flag), False)])
        # complete sequence: flag bit set, kind is not BYTE2, and (kind != BYTE1 or len >= pos+2) -- with the two-valued kind
        # (C14.R3) this leaves kind == BYTE1 and the second byte buffered
        complete = kindvar is not None and fn.needs_one_of(m, [('(%s & #%d)' % (ch, flag), True)]) and \
            fn.needs_one_of(m, [('(%s < (%s + #2))' % (ln, idx), False), ('(%s == #%d)' % (kindvar, b1), False)]) and \
            fn.needs_one_of(m, [('(%s == #%d)' % (kindvar, b2), False)])
        ctx.ob('C14.R4', fn, m, plain or complete, 'more = true', 'for a plain byte: %s; for a complete sequence: %s' % (plain, complete))
    # a deferred sequence stays in the buffer as a whole: where "more" is announced behind the cursor advance to the second
    # byte, the cursor is stepped back before the consumed count is handed to the transport
    cons = [c for c in fn.all('CXXMemberCallExpr') if (fn.nodes[c].get('callee') or '').endswith('::readConsumed')]
    incs = [nid for nid, d, rhs, op, lhs in fn.assignments() if op == '++' and d and d.split(':')[-1] == idx and
            fn.nodes[nid]['k'] == 'UnaryOperator' and fn.parent(nid) is not None and fn.nodes[fn.parent(nid)]['k'] != 'ForStmt' and
            fn.line_of(nid) > subs[0][0]]
    incs = [i for i in incs if len(subs) > 1 and fn.line_of(i) <= subs[1][0]]
    decs = set(nid for nid, d, rhs, op, lhs in fn.assignments() if op == '--' and d and d.split(':')[-1] == idx)
    if cons and incs:
        for m in mores:
            behind = any(fn.reaches_point(fn.pos(i)[0], fn.pos(m), set(), start_idx=fn.pos(i)[1] + 1) for i in incs) and \
                fn.line_of(m) > fn.line_of(incs[0])
            if not behind:
                continue
            leak = fn.reaches_point(fn.pos(m)[0], fn.pos(cons[0]), decs, start_idx=fn.pos(m)[1] + 1)
            ctx.ob('C14.R4', fn, m, not leak, 'deferred sequence is kept whole',
                   'every path from this "more" to readConsumed() steps the cursor back to the first byte: %s' % (not leak))
    stores = [nid for nid, d, rhs, op, lhs in fn.assignments() if lhs is not None and fn.key(lhs) == '*' + fn.P(2)]
    # path-sensitive: track the flag that records "a value was stored" (the variable assigned true next to the store)
    flagvar = None
    for nid, d, rhs, op, lhs in fn.assignments():
        if op == 'init' and rhs is not None and fn.val(rhs) == 0 and d and any(
                d2 == d and rhs2 is not None and fn.val(rhs2) == 1 for n2, d2, rhs2, op2, l2 in fn.assignments()):
            if any(fn.block_of(n2) == fn.block_of(st) for st in stores for n2, d2, r2, o2, l2 in fn.assignments() if d2 == d and o2 == '='):
                flagvar = d
    if flagvar is None:
        raise AnalysisBroken('C14.R4: the "value stored" flag was not recognised')
    fname = flagvar.split(':')[-1]
    bad = {}
    good = set()

    def on_elem(user, e, path):
        v = fn.nodes[e]
        if v['k'] == 'DeclStmt':
            for dd in v.get('decls', []):
                if dd['decl'] == flagvar and 'init' in dd:
                    return 'F' if fn.val(dd['init']) == 0 else 'T'
        if v['k'] == 'BinaryOperator' and v.get('op') == '=':
            if fn.ref_decl(v['lhs']) == flagvar:
                x = fn.val(v['rhs'])
                return 'T' if x == 1 else 'F' if x == 0 else '?'
            if e in stores:
                if user == 'F':
                    good.add(e)
                else:
                    bad.setdefault(e, path)
        return user

    def on_edge(user, b, j, dnf):
        st = user
        if len(dnf) == 1:
            for a in dnf[0]:
                k, p = facts.atom_key(fn, a)
                if k == fname:
                    if (p and st == 'F') or (not p and st == 'T'):
                        return None
                    st = 'T' if p else 'F'
        return st

    ex = facts.Explorer(fn, on_elem=on_elem, on_edge=on_edge)
    ex.run(fn.entry, 0, '?')
    for s in stores:
        ok = s not in bad and s in good
        ctx.ob('C14.R4', fn, s, ok, 'store of *value', 'only while no value was stored in this call: %s' % ok,
               witness=ex.describe_path(bad[s]) if s in bad else None)


def r6(ctx):
    ctx.rule('C14.R6', 'the info response buffer is written only at an index below its size', minimum=1)
    fb = ctx.fb
    fn = fb.fn(DEC)
    n = 0
    for nid, v in sorted(fn.nodes.items()):
        if v['k'] == 'ArraySubscriptExpr' and fn.key(v['base']) == 'this.m_infoBuf':
            p = fn.parent(nid)
            n += 1
            atoms = set((a[0], a[1]) for a in fn.atoms(nid))
            bound = v.get('bound')
            ok = any(k in ('(this.m_infoPos < #%s)' % bound, '(this.m_infoPos < sizeof(this.m_infoBuf))') and pol for k, pol in atoms)
            ctx.ob('C14.R6', fn, nid, ok, 'm_infoBuf[m_infoPos++]', 'guarded by m_infoPos < %s: %s' % (bound, ok))
    if n == 0:
        raise AnalysisBroken('C14.R6: info buffer write not found')


def r8(ctx):
    ctx.rule('C14.R8', 'the info buffer holds the request ID and the longest response the decoder gives a meaning to: its size '
             'is at least 1 + the largest length among the case labels of notifyInfoRetrieved ((len << 8) | id) and the '
             '`length` values of docs/enhanced_proto.md; a smaller buffer drops a documented response as invalid', minimum=1)
    fb = ctx.fb
    dec = fb.fn(DEC)
    bound = None
    for nid, v in sorted(dec.nodes.items()):
        if v['k'] == 'ArraySubscriptExpr' and dec.key(v['base']) == 'this.m_infoBuf' and v.get('bound'):
            bound = v['bound']
    fn = fb.fn('ebusd::EnhancedDevice::notifyInfoRetrieved')
    ctx.touch(fn)
    lens = []
    for sw in fn.all('SwitchStmt'):
        c = fn.nodes[fn.strip(fn.nodes[sw]['cond'], casts=True)]
        if c.get('k') != 'BinaryOperator' or c.get('op') != '|':
            continue
        sides = [fn.nodes[fn.strip(c[x], casts=True)] for x in ('lhs', 'rhs')]
        sh = [x for x in sides if x.get('k') == 'BinaryOperator' and x.get('op') == '<<' and fn.val(x['rhs']) == 8]
        if len(sh) != 1:
            continue
        shifted = fn.ref_decl(sh[0]['lhs'])
        lenvar = [d for nid, d, rhs, op, lhs in fn.assignments() if op == 'init' and rhs is not None and 'm_infoLen' in fn.key(rhs)]
        high_is_len = shifted in lenvar
        for cs in fn.all('CaseStmt'):
            v = fn.nodes[cs].get('v')
            if v is None:
                v = fn.val(fn.nodes[cs].get('lhs')) if fn.nodes[cs].get('lhs') is not None else None
            if v is not None:
                lens.append((v >> 8) if high_is_len else (v & 0xff))
    import re
    try:
        doc = open(os.path.join(facts.REPO, 'docs', 'enhanced_proto.md')).read()
    except OSError:
        raise AnalysisBroken('C14.R8: docs/enhanced_proto.md not readable')
    doclens = [int(m) for m in re.findall(r'`length`: =(\d+)', doc)]
    if bound is None or not lens or not doclens:
        raise AnalysisBroken('C14.R8: info buffer bound (%s), case labels (%d) or documented lengths (%d) not found' % (bound, len(lens), len(doclens)))
    need = 1 + max(lens + doclens)
    ctx.ob('C14.R8', fn, fn.body, bound >= need, 'capacity of m_infoBuf', 'm_infoBuf has %d bytes, the longest handled/documented '
           'response needs %d (ID + %d data bytes)' % (bound, need, need - 1))


def r7(ctx):
    ctx.mark('transport-accounting', 'C14.R7')
    ctx.rule('C14.R7', 'FileTransport::read appends at m_buffer + m_bufLen with at most m_bufSize - m_bufLen bytes and hands '
             'out the whole buffer; readConsumed keeps exactly the unconsumed tail (memmove of m_bufLen - len bytes from offset '
             'len) and never leaves a length beyond the data; behind the device read m_bufLen only grows by the number of bytes read',
             minimum=4)
    fb = ctx.fb
    fn = fb.fn('ebusd::FileTransport::read')
    ctx.touch(fn)
    reads = [c for c in fn.all('CallExpr') if fn.nodes[c].get('callee') == 'read']
    if not reads:
        raise AnalysisBroken('C14.R7: ::read call not found')
    for c in reads:
        a = [fn.xkey(x) for x in fn.nodes[c]['args']]
        ok = a[1:] == ['(this.m_buffer + this.m_bufLen)', '(this.m_bufSize - this.m_bufLen)']
        ctx.ob('C14.R7', fn, c, ok, 'device read', 'read(fd, %s, %s)' % (a[1], a[2]))
    # the bytes are accounted where they were put: behind the ::read the only change of m_bufLen is the addition of the
    # number of bytes read (a reset in between would hand out stale bytes in place of the new ones)
    for c in reads:
        cb, ci = fn.pos(c)
        sz = None
        for nid, d, rhs, op, lhs in fn.assignments():
            if rhs is not None and c in list(fn.walk(rhs)) and d:
                sz = d
        later = []
        for nid, d, rhs, op, lhs in fn.assignments():
            if d != 'this.m_bufLen' or fn.pos(nid) is None:
                continue
            if fn.reaches_point(cb, fn.pos(nid), set(), ci + 1):
                later.append((nid, op, fn.ref_decl(rhs) if rhs is not None else None))
        ok = bool(later) and all(op == '+=' and rd == sz and sz is not None for _, op, rd in later)
        ctx.ob('C14.R7', fn, c, ok, 'accounting of the bytes read',
               'writes to m_bufLen behind the device read: %s' % [(fn.line_of(x), op) for x, op, _ in later])
    rc = fb.fn('ebusd::FileTransport::readConsumed')
    ctx.touch(rc)
    mm = [c for c in rc.all('CallExpr') if rc.nodes[c].get('callee') in ('memmove', 'memcpy')]
    for c in mm:
        a = [rc.key(x) for x in rc.nodes[c]['args']]
        tail = None
        for nid, d, rhs, op, lhs in rc.assignments():
            if op == 'init' and rhs is not None and d and d.split(':')[-1] == a[2]:
                tail = rc.key(rhs)
        ln = rc.P(0)
        ok = rc.nodes[c].get('callee') == 'memmove' and a[0] == 'this.m_buffer' and a[1] == '(this.m_buffer + %s)' % ln and \
            (tail == '(this.m_bufLen - %s)' % ln or a[2] == '(this.m_bufLen - %s)' % ln)
        atoms = set((x[0], x[1]) for x in rc.atoms(c))
        ok = ok and ('(%s < this.m_bufLen)' % ln, True) in atoms
        ctx.ob('C14.R7', rc, c, ok, 'tail move', 'memmove(%s) tail=%s under %s' % (', '.join(a), tail, sorted(atoms)))
    sets = [(nid, rc.key(rhs)) for nid, d, rhs, op, lhs in rc.assignments() if d == 'this.m_bufLen' and rhs is not None]
    tails = rc.local_where(lambda k, r: k == '(this.m_bufLen - %s)' % rc.P(0))
    ok = sorted(k for _, k in sets) in ([['#0', t] for t in tails] + [sorted(['#0', '(this.m_bufLen - %s)' % rc.P(0)])])
    ctx.ob('C14.R7', rc, rc.body, ok and bool(mm), 'remaining length', 'm_bufLen := %s' % sorted(k for _, k in sets))


def overflow_threshold_rule(ctx, rid):
    ctx.mark('overflow-threshold', rid)
    ctx.rule(rid, 'buffered input is given up only when the transport buffer is nearly exhausted: the condition under which '
             'FileTransport::read resets m_bufLen (evaluated on the typed AST for buffer sizes 16..256 and every fill level) is '
             'false whenever at least half of the buffer is free - a pending first byte of a two-byte sequence or the rest of a '
             'chunk behind a corrupted fragment must survive the next read - and true when the buffer is full (a read of zero '
             'bytes would look like a timeout for ever)', minimum=1)
    import tinyeval
    import rules.C19 as c19
    fb = ctx.fb
    fn = fb.fn('ebusd::FileTransport::read')
    ctx.touch(fn)
    resets = [nid for nid, d, rhs, op, lhs in fn.assignments() if d == 'this.m_bufLen' and op == '=' and rhs is not None and fn.val(rhs) == 0]
    if not resets:
        raise AnalysisBroken('%s: overflow reset of m_bufLen not found in FileTransport::read' % rid)
    for r in resets:
        conds = c19._pure_conds(fn, r, lambda v: v.get('this') and v.get('name') in ('m_bufLen', 'm_bufSize'))
        if not conds:
            ctx.ob(rid, fn, r, False, 'overflow reset', 'not under a condition on the fill level')
            continue
        bad = []
        try:
            for size in (16, 32, 64, 256):
                for ln in range(0, size + 1):
                    m = tinyeval.Machine(fn, {'m_bufLen': ln, 'm_bufSize': size}, [])
                    hit = all(bool(m.rv(c)) == t for c, t in conds)
                    if hit and ln * 2 <= size:
                        bad.append('%d of %d bytes buffered: discarded' % (ln, size))
                    if not hit and ln == size:
                        bad.append('%d of %d bytes buffered: not reset' % (ln, size))
        except tinyeval.Unknown as e:
            raise AnalysisBroken('%s: overflow condition not evaluable (%s)' % (rid, e))
        ctx.ob(rid, fn, r, not bad, 'overflow reset threshold', '; '.join(bad[:3]) or 'between half full and full for every size')


def clock_rule(ctx, rid):
    ctx.mark('clock', rid)
    ctx.rule(rid, 'the deadline arithmetic of recv() runs on milliseconds: clockGetMillis() returns seconds * 1000 + nanoseconds / '
             '1000000 of the clock reading (evaluated on the typed AST for readings around second boundaries); with another unit '
             'the wait for the second byte of a split sequence ends early or the call blocks', minimum=1)
    import tinyeval
    fb = ctx.fb
    fn = fb.fn('ebusd::clockGetMillis')
    ctx.touch(fn)
    rets = [r for r in fn.all('ReturnStmt') if fn.nodes[r].get('val') is not None]
    if len(rets) != 1:
        raise AnalysisBroken('%s: clockGetMillis has %d return statements' % (rid, len(rets)))
    tv = None
    for x in fn.walk(rets[0]):
        v = fn.nodes[x]
        if v['k'] == 'MemberExpr' and v.get('name') in ('tv_sec', 'tv_nsec'):
            tv = fn.key(x).rsplit('.', 1)[0]
    if tv is None:
        raise AnalysisBroken('%s: timespec fields not used in clockGetMillis' % rid)
    bad = []
    try:
        for sec in (0, 1, 59, 1700000000):
            for ns in (0, 999, 1000, 999999, 1000000, 1999999, 500000000, 999999999):
                m = tinyeval.Machine(fn, {tv + '.tv_sec': sec, tv + '.tv_nsec': ns}, [])
                got = m.rv(fn.nodes[rets[0]]['val'])
                if got != sec * 1000 + ns // 1000000 and len(bad) < 3:
                    bad.append('%d s %d ns -> %d' % (sec, ns, got))
    except tinyeval.Unknown as e:
        raise AnalysisBroken('%s: clock expression not evaluable (%s)' % (rid, e))
    ctx.ob(rid, fn, rets[0], not bad, 'unit of clockGetMillis', '; '.join(bad) or 'milliseconds for all 32 readings')


def r11(ctx):
    ctx.rule('C14.R11', 'a symbol that was decoded from the buffer is handed out: in handleEnhancedBufferedData, once the pending '
             'symbol is set (valueSet = true with *value stored) no path of the same call clears the flag or stores another '
             'symbol over it - every frame that would do so (RECEIVED, STARTED, FAILED, RESETTED) is deferred to the next call '
             'instead. Otherwise the symbols delivered depend on whether a frame arrives in the same read chunk as the symbol '
             'before it', minimum=3)
    fb = ctx.fb
    fn = fb.fn(DEC)
    ctx.touch(fn)
    flags = [d for nid, d, rhs, op, lhs in fn.assignments() if op == 'init' and d and rhs is not None and fn.val(rhs) == 0 and
             any(d2 == d and r2 is not None and fn.val(r2) == 1 for _, d2, r2, _, _ in fn.assignments()) and
             any(fn.key(fn.nodes[r].get('val', -1)).find(d.split(':')[-1]) >= 0 for r in fn.all('ReturnStmt') if fn.nodes[r].get('val') is not None)]
    vp = fn.P(2)
    stores0 = [nid for nid, d, rhs, op, lhs in fn.assignments() if lhs is not None and fn.key(lhs) == '*' + vp]
    cands = []
    for d in flags:
        # the flag that is set next to the stores to *value
        sets = [nid for nid, d2, rhs, op, lhs in fn.assignments() if d2 == d and rhs is not None and fn.val(rhs) == 1]
        near = sum(1 for x in sets if any(fn.block_of(x) == fn.block_of(y) for y in stores0))
        cands.append((near, d))
    if not cands or sorted(cands)[-1][0] == 0:
        raise AnalysisBroken('C14.R11: pending-symbol flag not found')
    flag = sorted(cands)[-1][1]
    fname = flag.split(':')[-1]
    set_true = set(nid for nid, d, rhs, op, lhs in fn.assignments() if d == flag and op == '=' and rhs is not None and fn.val(rhs) == 1)
    set_false = set(nid for nid, d, rhs, op, lhs in fn.assignments() if d == flag and op == '=' and rhs is not None and fn.val(rhs) == 0)
    stores = set(nid for nid, d, rhs, op, lhs in fn.assignments() if lhs is not None and fn.key(lhs) == '*' + vp)
    bad = {}

    def on_elem(user, e, path):
        if e in stores and user == 'set':
            bad.setdefault(e, 'stores another symbol over the pending one')
        if e in set_false:
            if user == 'set':
                bad.setdefault(e, 'clears the flag of a pending symbol')
            return 'unset'
        if e in set_true:
            return 'set'
        return user

    def on_edge(user, b, j, dnf):
        for conj in dnf:
            ok = True
            for a in conj:
                k, p = facts.atom_key(fn, a)
                if k == fname and ((user == 'set') != bool(p)):
                    ok = False
            if ok:
                return user
        return None
    facts.Explorer(fn, on_elem=on_elem, on_edge=on_edge).run(fn.entry, 0, 'unset')
    for e in sorted(stores | set_false):
        ctx.ob('C14.R11', fn, e, e not in bad, 'pending symbol at %s' % ('a store to *%s' % vp if e in stores else '%s = false' % fname),
               bad.get(e, 'not reachable with a pending symbol'))


def r12(ctx):
    ctx.mark('arbitration-pair', 'C14.R12')
    ctx.rule('C14.R12', 'the two variables of a running arbitration go together: wherever a method of EnhancedDevice ends an '
             'arbitration by m_arbitrationMaster = SYN, m_arbitrationCheck is 0 on every path to the end of the method (cleared '
             'there, or known to be 0 because the method returned early for a non-zero value); a counter left behind makes '
             'every later startArbitration() refuse with "arbitration running" and write nothing', minimum=4)
    fb = ctx.fb
    n = 0
    seen = set()
    for fn in fb.functions:
        if fn.cls != 'ebusd::EnhancedDevice' or not fn.blocks or (fn.name, fn.sig) in seen:
            continue
        seen.add((fn.name, fn.sig))
        ends = [nid for nid, d, rhs, op, lhs in fn.assignments() if d == 'this.m_arbitrationMaster' and rhs is not None and fn.val(rhs) == 170]
        clears = set(nid for nid, d, rhs, op, lhs in fn.assignments() if d == 'this.m_arbitrationCheck' and op == '=' and rhs is not None and fn.val(rhs) == 0)
        sets = set(nid for nid, d, rhs, op, lhs in fn.assignments() if d == 'this.m_arbitrationCheck' and nid not in clears)
        for e in ends:
            n += 1
            ctx.touch(fn)
            pe = fn.pos(e)
            # cleared before in the same straight-line run, or on every path behind
            before = any(fn.pos(c) is not None and fn.pos(c)[0] == pe[0] and fn.pos(c)[1] < pe[1] for c in clears)
            behind = bool(clears) and not fn.reaches_point(pe[0], (fn.exit, 0), clears, start_idx=pe[1] + 1)
            # or the counter is known to be zero: the function left early for a non-zero counter and does not set it before
            zero = fn.needs_one_of(e, [('this.m_arbitrationCheck', False), ('(this.m_arbitrationCheck == #0)', True)]) and \
                not any(fn.pos(s_) is not None and fn.reaches_point(fn.pos(s_)[0], pe, set(), start_idx=fn.pos(s_)[1] + 1) for s_ in sets)
            ctx.ob('C14.R12', fn, e, before or behind or zero, 'end of an arbitration in %s' % fn.name.split('::')[-1],
                   'm_arbitrationCheck is 0 as well: %s' % (before or behind or zero))
    if n < 4:
        raise AnalysisBroken('C14.R12: only %d ends of an arbitration found in EnhancedDevice' % n)


def r13(ctx):
    ctx.rule('C14.R13', 'a byte is taken as the second byte of a sequence exactly if its two top bits are 10: the condition under '
             'which handleEnhancedBufferedData reports "missing enhanced byte 2", evaluated for all 256 values of the byte '
             'behind a first byte, is true exactly for the values outside 0x80..0xbf (another first byte or a plain byte must '
             'not be consumed as data)', minimum=1)
    import tinyeval
    fb = ctx.fb
    fn = fb.fn(DEC)
    ctx.touch(fn)
    n = 0
    for c in fn.all('CXXMemberCallExpr'):
        v = fn.nodes[c]
        if not (v.get('callee') or '').endswith('::notifyDeviceStatus') or len(v.get('args', [])) < 2 or 'missing enhanced byte 2' not in fn.key(v['args'][1]):
            continue
        p = fn.parent(c)
        child = c
        conds = []
        while p is not None:
            pv = fn.nodes[p]
            if pv['k'] == 'IfStmt' and pv.get('then') is not None and (child == pv['then'] or child in set(fn.walk(pv['then']))):
                conds.append(pv['cond'])
            child = p
            p = fn.parent(p)
        conds = [x for x in conds if 'this.m_listener' not in fn.key(x)]
        if not conds:
            continue
        cond = conds[0]
        locs = sorted(set(fn.nodes[x]['decl'] for x in fn.walk(cond) if fn.nodes[x]['k'] == 'DeclRefExpr' and fn.nodes[x].get('rk') == 'local'))
        if len(locs) != 1:
            continue
        n += 1
        bad = []
        try:
            for b in range(256):
                m = tinyeval.Machine(fn, {}, [])
                m.locals[locs[0]] = b
                got = bool(m.rv(cond))
                if got != ((b & 0xc0) != 0x80) and len(bad) < 4:
                    bad.append('%02x is %s' % (b, 'refused' if got else 'accepted as second byte'))
        except tinyeval.Unknown as e:
            raise AnalysisBroken('C14.R13: second byte condition not evaluable (%s)' % e)
        ctx.ob('C14.R13', fn, cond, not bad, 'classification of the second byte', '; '.join(bad) or 'second byte iff top bits are 10')
    if n < 1:
        raise AnalysisBroken('C14.R13: check of the second byte not found')


def r14(ctx):
    ctx.mark('arbitration-counter', 'C14.R14')
    ctx.rule('C14.R14', 'a counter that is compared with a bound moves towards it: where handleEnhancedBufferedData changes '
             'm_arbitrationCheck under "counter < N" (the SYN symbols seen while an arbitration start is unanswered), it '
             'increases it, so that the other branch (timeout of the arbitration) is reached after N symbols; counting the '
             'other way keeps the device arbitrating for ever and the request is never completed', minimum=1)
    import re
    fb = ctx.fb
    fn = fb.fn(DEC)
    ctx.touch(fn)
    n = 0
    for nid, d, rhs, op, lhs in fn.assignments():
        if d != 'this.m_arbitrationCheck' or op in ('=', 'init'):
            continue
        bound = [(k, p) for k, p in ((a[0], a[1]) for a in fn.atoms(nid)) if re.match(r'^\(this\.m_arbitrationCheck (<|<=) #\d+\)$', k)]
        if not bound:
            continue
        n += 1
        up = op == '++' or (op == '+=' and rhs is not None and (fn.val(rhs) or 0) > 0)
        ok = all((up and p) or (not up and not p) for k, p in bound)
        ctx.ob('C14.R14', fn, nid, ok, 'SYN counter of an unanswered arbitration', 'm_arbitrationCheck %s under %s' % (op, bound))
    if n < 1:
        raise AnalysisBroken('C14.R14: bounded update of m_arbitrationCheck not found')


def r15(ctx):
    ctx.mark('decoder-incomplete', 'C14.R15')
    ctx.rule('C14.R15', 'RESULT_CONTINUE promises that another complete item is buffered: on a path on which '
             'handleEnhancedBufferedData stopped because the second byte of a sequence has not arrived yet (len < pos + 2) the '
             'value returned is not RESULT_CONTINUE - decided by following that path to the return statement with the facts '
             'that hold on it (constant flags, locals that still equal the buffer length, the loop condition); otherwise the '
             'caller comes back at once with timeout 0, sees nothing and gives up in the middle of a telegram', minimum=1)
    import re
    fb = ctx.fb
    fn = fb.fn(DEC)
    ctx.touch(fn)
    lenp = fn.P(1)
    cont = None
    for en, e in fb.enums.items():
        for x in e['enumerators']:
            if x['name'] == 'RESULT_CONTINUE':
                cont = x['v']
    stops = set()
    for b in fn.all('BreakStmt', 'ReturnStmt'):
        for k, p in ((a[0], a[1]) for a in fn.atoms(b)):
            # any spelling of "fewer than two bytes from pos on": a relational test of the length against a position
            # with a constant offset (len < pos + 2, pos + 1 >= len, pos > len - 2, ...); the loop condition has no offset
            if re.search(r'\b%s\b' % re.escape(lenp), k) and re.search(r' (<|<=|>|>=) ', k) and re.search(r'#[12]\b', k) \
                    and '&&' not in k and '||' not in k:
                stops.add(b)
    if not stops or cont is None:
        raise AnalysisBroken('C14.R15: the stop for an incomplete sequence (len < pos + 2) not found')
    simple = lambda x: fn.nodes[fn.strip(x, casts=True)].get('k') == 'DeclRefExpr' and fn.nodes[fn.strip(x, casts=True)].get('rk') in ('local', 'param')
    name = lambda x: fn.nodes[fn.strip(x, casts=True)].get('name')
    writes = {}
    for nid, d, rhs, op, lhs in fn.assignments():
        if d and ':' in d:
            writes[nid] = (d.split(':')[-1], rhs, op)
    bad = []

    def norm(nm, eqs):
        for a, b in eqs:
            if nm == a:
                return b
        return nm

    def value(x, consts, eqs, rel):
        """set of possible constant results of a return expression, None if not decidable"""
        x = fn.strip(x, casts=True)
        v = fn.nodes[x]
        if fn.val(x) is not None and v['k'] != 'DeclRefExpr':
            return {fn.val(x)}
        if v['k'] == 'DeclRefExpr':
            if v.get('rk') == 'enumerator':
                return {v.get('v')}
            c = dict(consts).get(v.get('name'))
            return {c} if c is not None else None
        if v['k'] == 'ConditionalOperator':
            cv = fn.nodes[fn.strip(v['cond'], casts=True)]
            truth = None
            if cv['k'] == 'DeclRefExpr':
                truth = dict(consts).get(cv.get('name'))
            elif cv['k'] == 'BinaryOperator' and cv.get('op') in ('<', '<=', '>', '>=') and simple(cv['lhs']) and simple(cv['rhs']):
                l, r = norm(name(cv['lhs']), eqs), norm(name(cv['rhs']), eqs)
                op = cv['op']
                if op in ('>', '>='):
                    l, r, op = r, l, {'>': '<', '>=': '<='}[op]
                if (l, '<', r) in rel:
                    truth = 1
                elif (r, '<=', l) in rel or (r, '<', l) in rel and op == '<=':
                    truth = 0
            if truth is None:
                a, b = value(v['then'], consts, eqs, rel), value(v['else'], consts, eqs, rel)
                return None if a is None or b is None else (a | b if False else None)
            return value(v['then'] if truth else v['else'], consts, eqs, rel)
        return None

    def on_elem(user, e, path):
        seen, consts, eqs, rel = user
        v = fn.nodes[e]
        if e in stops:
            seen = True
        if v['k'] == 'DeclStmt':
            for dd in v.get('decls', []):
                if dd.get('init') is None:
                    continue
                iv = fn.nodes[fn.strip(dd['init'], casts=True)]
                if fn.val(dd['init']) is not None and iv.get('k') != 'DeclRefExpr':
                    consts = frozenset(set(consts) | {(dd['name'], fn.val(dd['init']))})
                elif iv.get('k') == 'DeclRefExpr' and iv.get('rk') in ('local', 'param'):
                    eqs = frozenset(set(eqs) | {(dd['name'], iv.get('name'))})
        if e in writes:
            nm, rhs, op = writes[e]
            if op != 'init':
                consts = frozenset(x for x in consts if x[0] != nm)
                eqs = frozenset(x for x in eqs if nm not in x)
                rel = frozenset(x for x in rel if nm not in (x[0], x[2]))
                if op == '=' and rhs is not None and fn.val(rhs) is not None:
                    consts = frozenset(set(consts) | {(nm, fn.val(rhs))})
        if v['k'] == 'ReturnStmt':
            if seen and v.get('val') is not None:
                got = value(v['val'], consts, eqs, rel)
                if got is not None and cont in got:
                    bad.append(e)
            return None
        return (seen, consts, eqs, rel)

    def on_edge(user, b, j, dnf):
        seen, consts, eqs, rel = user
        # an edge that contradicts a constant known for a variable is not taken (len = 0; ... if (len == 0) break;)
        cd = dict(consts)
        feasible = False
        for conj in dnf:
            ok_ = True
            for a in conj:
                k_, p_ = facts.atom_key(fn, a)
                m_ = re.match(r'^\((\w+) == #(-?\d+)\)$', k_)
                if m_ and m_.group(1) in cd and ((cd[m_.group(1)] == int(m_.group(2))) != bool(p_)):
                    ok_ = False
                if re.match(r'^\w+$', k_) and k_ in cd and (bool(cd[k_]) != bool(p_)):
                    ok_ = False
            feasible = feasible or ok_
        if not feasible:
            return None
        if len(dnf) == 1:
            for a in dnf[0]:
                k_, p_ = facts.atom_key(fn, a)
                if p_ and re.match(r'^\(%s < \(\w+ \+ #2\)\)$' % re.escape(lenp), k_):
                    seen = True     # the stop for an incomplete sequence is taken
                if a[0] == 'cmp' and not isinstance(a[3], tuple) and simple(a[1]) and simple(a[3]) and a[2] in ('<', '<=', '>', '>='):
                    l, r, op = norm(name(a[1]), eqs), norm(name(a[3]), eqs), a[2]
                    if op in ('>', '>='):
                        l, r, op = r, l, {'>': '<', '>=': '<='}[op]
                    rel = frozenset(set(rel) | {(l, op, r)})
                elif a[0] == 'b' and re.match(r'^\w+$', a[1]):
                    consts = frozenset(set(x for x in consts if x[0] != a[1]) | {(a[1], 1 if a[2] else 0)})
        return (seen, consts, eqs, rel)
    ex = facts.Explorer(fn, on_elem=on_elem, on_edge=on_edge)
    ex.corr = set()
    ex.run(fn.entry, 0, (False, frozenset(), frozenset(), frozenset()), max_states=400000)
    ctx.ob('C14.R15', fn, sorted(stops)[0], not bad, 'result after an incomplete sequence',
           'RESULT_CONTINUE is returned at line(s) %s on a path that stopped for the missing second byte' % sorted(set(fn.line_of(x) for x in bad))
           if bad else 'no return of RESULT_CONTINUE is decided on such a path')


def switch_groups(fn, sw):
    """the case groups of a switch statement: list of (set of label values, 'default' for the default label; list of the
    statement nodes executed for them up to the break, following fall-through)"""
    body = fn.nodes[sw].get('body')
    groups = []
    for c in fn.nodes[body].get('ch', []):
        v = fn.nodes[c]
        if v['k'] in ('CaseStmt', 'DefaultStmt'):
            labels = set()
            x = c
            while fn.nodes[x]['k'] in ('CaseStmt', 'DefaultStmt'):
                xv = fn.nodes[x]
                labels.add('default' if xv['k'] == 'DefaultStmt' else fn.val(xv['lhs']))
                x = xv['sub']
            groups.append([labels, [x]])
        elif groups:
            groups[-1][1].append(c)
    # fall-through: a group that does not end in a jump continues with the next one
    res = []
    for i, (labels, stmts) in enumerate(groups):
        allst = list(stmts)
        j = i
        while j + 1 < len(groups) and fn.nodes[groups[j][1][-1]]['k'] not in ('BreakStmt', 'ReturnStmt', 'ContinueStmt'):
            j += 1
            allst += groups[j][1]
        res.append((labels, allst))
    return res


def r16(ctx):
    ctx.mark('decoder-deferral', 'C14.R16')
    ctx.rule('C14.R16', 'a two-byte sequence is deferred to the next call (more = true behind the cursor advance, answered with '
             'RESULT_CONTINUE) only if handling it now could overwrite or drop the symbol already extracted in this call: the '
             'deferral is reached only for commands whose case of the decoder switch stores *value or writes the "value '
             'stored" flag. A sequence that yields nothing for the caller (info, error report, unknown command) is consumed '
             'at once - deferred, it makes the caller come back with timeout 0 for a symbol that does not exist, and the '
             'telegram in progress is given up', minimum=1)
    fb = ctx.fb
    fn = fb.fn(DEC)
    ctx.touch(fn)
    mv = more_var(ctx, fn)
    if mv is None:
        raise AnalysisBroken('C14.R16: the return of RESULT_CONTINUE was not recognised')
    mores = [nid for nid, d, rhs, op, lhs in fn.assignments() if d and d.endswith(':' + mv) and rhs is not None and fn.val(rhs) != 0 and op != 'init']
    sws = []
    for sw in fn.all('SwitchStmt'):
        groups = switch_groups(fn, sw)
        nlab = sum(len(g[0]) for g in groups)
        if nlab >= 5:
            sws.append((sw, groups))
    if len(sws) != 1:
        raise AnalysisBroken('C14.R16: the command switch of the decoder was not recognised')
    sw, groups = sws[0]
    ckey = fn.key(fn.nodes[sw]['cond'])
    stores = set(nid for nid, d, rhs, op, lhs in fn.assignments() if lhs is not None and fn.key(lhs) == '*' + fn.P(2))
    flagvar = None
    for nid, d, rhs, op, lhs in fn.assignments():
        if op == '=' and rhs is not None and fn.val(rhs) == 1 and d and any(fn.block_of(nid) == fn.block_of(st) for st in stores):
            flagvar = d
    if flagvar is None or not stores:
        raise AnalysisBroken('C14.R16: the "value stored" flag was not recognised')
    flagw = set(nid for nid, d, rhs, op, lhs in fn.assignments() if d == flagvar and op != 'init')
    writing, silent = set(), set()
    for labels, stmts in groups:
        inside = set()
        for st in stmts:
            inside |= set(fn.walk(st))
        (writing if inside & (stores | flagw) else silent).update(labels)
    subs = buffer_reads(fn)
    if len(subs) < 2:
        raise AnalysisBroken('C14.R16: buffer reads not recognised')
    n = 0
    for m in mores:
        if fn.line_of(m) <= subs[1][0]:
            continue  # in front of the second byte: a plain symbol
        n += 1
        grp = set()
        for labels, stmts in groups:
            if any(m in set(fn.walk(st)) for st in stmts):
                grp |= labels
        if grp:
            bad = sorted(str(x) for x in grp & silent)
            ok = not bad
        else:
            # not inside a case: every command for which the site is reachable counts
            need = [('(%s == #%d)' % (ckey, v), True) for v in sorted(x for x in writing if x != 'default')]
            ok = bool(need) and fn.needs_one_of(m, need)
            bad = sorted(str(x) for x in silent)
        ctx.ob('C14.R16', fn, m, ok, 'deferral of a sequence',
               'reached only for commands whose handling touches the extracted symbol: %s%s' % (ok, '' if ok else ' (also for command(s) %s, which yield nothing)' % ', '.join(bad)))
    if n < 1:
        raise AnalysisBroken('C14.R16: no deferral of a sequence found')


def r20(ctx):
    ctx.mark('enhanced-send', 'C14.R20')
    ctx.rule('C14.R20', 'every symbol ebusd sends through an enhanced adapter is encoded as the protocol defines: in '
             'EnhancedDevice::send every write to the transport hands over the two-byte SEND sequence (length 2), or - the '
             'short form of docs/enhanced_proto.md - the symbol itself as one byte under a test that it is below 0x80 '
             '(value < 0x80 or (value & 0x80) == 0); 0x80 written raw is a second byte without a first one, the adapter drops '
             'it and the symbol never reaches the bus', minimum=1)
    fb = ctx.fb
    fn = fb.fn('ebusd::EnhancedDevice::send')
    ctx.touch(fn)
    val = fn.P(0)
    n = 0
    for c in fn.calls('write'):
        v = fn.nodes[c]
        if len(v.get('args', [])) < 2:
            continue
        n += 1
        ln = fn.val(v['args'][1])
        if ln == 2:
            ctx.ob('C14.R20', fn, c, True, 'write of a two-byte sequence', 'length 2')
            continue
        ok = ln == 1 and fn.needs_one_of(c, [('(%s < #128)' % val, True), ('(%s <= #127)' % val, True), ('(%s & #128)' % val, False),
                                             ('((%s & #128) == #0)' % val, True)])
        ctx.ob('C14.R20', fn, c, bool(ok), 'write of %s byte(s)' % ln, 'a single byte only for a symbol below 0x80: %s' % bool(ok))
    if n < 1:
        raise AnalysisBroken('C14.R20: no transport write found in EnhancedDevice::send')


def r21(ctx):
    ctx.rule('C14.R21', 'the transport hands out everything it has buffered: every value FileTransport::read stores through its '
             'length out-parameter is the buffered length m_bufLen (not the size of the last ::read) - the frame decoder leaves '
             'the first byte of an incomplete sequence in the buffer, and with the count of the new chunk only, the tail of the '
             'buffer stays invisible', minimum=2)
    fb = ctx.fb
    fn = fb.fn('ebusd::FileTransport::read')
    ctx.touch(fn)
    lp = fn.P(2)
    n = 0
    for nid, d, rhs, op, lhs in fn.assignments():
        if lhs is None or rhs is None or fn.key(lhs) != '*' + lp:
            continue
        n += 1
        k = fn.xkey(rhs)
        ok = k in ('this.m_bufLen', '#0') or fn.key(rhs) == 'this.m_bufLen'
        ctx.ob('C14.R21', fn, nid, ok, 'length handed out by read()', 'the buffered length: %s (%s)' % (ok, fn.key(rhs)))
    if n < 2:
        raise AnalysisBroken('C14.R21: stores through the length out-parameter of FileTransport::read not found')


def r22(ctx):
    ctx.rule('C14.R22', 'an error frame can only cancel a RUNNING arbitration: BaseDevice::cancelRunningArbitration stores as_error '
             'through the state out-parameter only behind the test that an arbitration is requested (m_arbitrationMaster != SYN) - '
             'its callers call it for every error frame and transport error', minimum=1)
    fb = ctx.fb
    fn = fb.fn('ebusd::BaseDevice::cancelRunningArbitration')
    ctx.touch(fn)
    n = 0
    for nid, d, rhs, op, lhs in fn.assignments():
        if lhs is None or fn.key(lhs) != '*' + fn.P(0):
            continue
        n += 1
        ok = fn.needs_one_of(nid, [('(this.m_arbitrationMaster == #170)', False)])
        ctx.ob('C14.R22', fn, nid, ok, 'as_error reported by cancelRunningArbitration', 'only with an arbitration requested: %s' % ok)
    if n < 1:
        raise AnalysisBroken('C14.R22: the store through the state out-parameter was not found')


def r23(ctx):
    ctx.rule('C14.R23', 'an INFO response is assembled from the start of the info buffer: in EnhancedDevice either every store '
             'that arms a response (m_infoLen = a non-zero constant) or every store that ends one (m_infoLen = 0) is '
             'accompanied on every path through its function by a store to the write position m_infoPos - a response cut '
             'short by a reset frame, a newer request or a timeout otherwise leaves the position behind old bytes and the next '
             'well-formed response is stored behind them and completes early with mixed content', minimum=1)
    fb = ctx.fb
    arm, end = [], []
    for fn in fb.functions:
        if not fn.blocks or not fn.name.startswith('ebusd::EnhancedDevice::'):
            continue
        asg = list(fn.assignments())
        pos = set(nid for nid, d, rhs, op, lhs in asg if lhs is not None and fn.key(lhs) == 'this.m_infoPos')
        for nid, d, rhs, op, lhs in asg:
            if lhs is None or fn.key(lhs) != 'this.m_infoLen' or op != '=' or rhs is None:
                continue
            r_ = fn.strip(rhs, casts=True)
            while fn.nodes.get(r_, {}).get('k') == 'BinaryOperator' and fn.nodes[r_].get('op') == '=':      # a = b = constant
                r_ = fn.strip(fn.nodes[r_]['rhs'], casts=True)
            v = fn.val(r_)
            if v is None:
                continue
            ctx.touch(fn)
            b, i = fn.pos(nid)
            acc = not fn.reaches_point(fn.entry, (b, i), pos) or (fn.exit is not None and not fn.reaches_point(b, (fn.exit, 0), pos, start_idx=i + 1))
            (arm if v else end).append((fn, nid, acc))
    if not arm or len(end) < 3:
        raise AnalysisBroken('C14.R23: the stores that arm (%d) / end (%d) an INFO response were not recognised' % (len(arm), len(end)))
    a_ok = all(a for f, n, a in arm)
    e_ok = all(a for f, n, a in end)
    for fn, nid, acc in arm:
        ctx.ob('C14.R23', fn, nid, acc or e_ok, 'response armed (m_infoLen = non-zero constant)',
               'write position reset with it (or with every store that ends a response): %s' % (acc or e_ok))
    if not a_ok and not e_ok:
        for fn, nid, acc in end:
            if not acc:
                ctx.note('C14.R23: m_infoLen = 0 in %s line %d leaves m_infoPos as it is' % (fn.name, fn.line_of(nid)))


def r24(ctx):
    ctx.rule('C14.R24', 'an arbitration that is over is over in both members: in the device classes every store that withdraws the '
             'arbitration address (m_arbitrationMaster = SYN) is accompanied on every path through its function by the '
             'reset of the check counter (m_arbitrationCheck = 0, behind it or in front of it), or is reached only with the counter being 0 - a counter '
             'left non-zero after the protocol layer withdrew an arbitration (startArbitration(SYN), no state pointer) makes '
             'the next arbitration start answer "arbitration running" and write nothing', minimum=5)
    fb = ctx.fb
    n = 0
    for fn in fb.functions:
        if not fn.blocks or fn.relfile not in ('src/lib/ebus/device_trans.cpp', 'src/lib/ebus/device_trans.h', 'src/lib/ebus/device.cpp', 'src/lib/ebus/device.h'):
            continue
        asg = list(fn.assignments())
        resets = set(nid for nid, d, rhs, op, lhs in asg if lhs is not None and fn.key(lhs) == 'this.m_arbitrationCheck' and
                     op == '=' and rhs is not None and fn.val(rhs) == 0)
        for nid, d, rhs, op, lhs in asg:
            if lhs is None or fn.key(lhs) != 'this.m_arbitrationMaster' or op != '=' or rhs is None or fn.val(rhs) != 170:
                continue
            n += 1
            ctx.touch(fn)
            b, i = fn.pos(nid)
            after = fn.exit is not None and not fn.reaches_point(b, (fn.exit, 0), resets, start_idx=i + 1)
            zero = fn.needs_one_of(nid, [('this.m_arbitrationCheck', False), ('(this.m_arbitrationCheck == #0)', True),
                                         ('(this.m_arbitrationCheck <= #0)', True), ('(this.m_arbitrationCheck < #1)', True)])
            sets = set(n2 for n2, d2, r2, o2, l2 in asg if l2 is not None and fn.key(l2) == 'this.m_arbitrationCheck' and n2 not in resets)
            # in front of it: every path from the entry passes a reset, and no other store to the counter lies between
            before = bool(resets) and not fn.reaches_point(fn.entry, (b, i), resets) and \
                not any(fn.reaches_point(fn.pos(s_)[0], (b, i), resets, start_idx=fn.pos(s_)[1] + 1) for s_ in sets)
            ok = after or zero or before
            ctx.ob('C14.R24', fn, nid, ok, 'arbitration withdrawn in %s' % fn.name.split('::', 1)[-1],
                   'check counter reset on every path behind it: %s; or in front of it: %s; reached only with the counter 0: %s' % (after, before, zero))
    if n < 5:
        raise AnalysisBroken('C14.R24: only %d stores m_arbitrationMaster = SYN found' % n)


def run(ctx):
    r24(ctx)
    r23(ctx)
    r21(ctx)
    r22(ctx)
    r20(ctx)
    import rules.common as _cms
    ctx.rule('C14.R19', 'a failure reported as -1 stays negative: in the sources of this property the result of a POSIX call that reports errors as -1 (read, write, recv, send, poll, open, socket, ioctl, ...) is not converted to an unsigned type where it is stored or tested (equality with the requested length excepted) - held in a size_t a failed read counts as SIZE_MAX received bytes, the buffered length runs past the 32 byte receive buffer and the decoder reads far beyond it', minimum=8)
    _cms.signed_result_rule(ctx, 'C14.R19', lambda f: f.relfile.startswith(('src/lib/ebus/transport.',)), 8)
    import rules.common as _cmw
    ctx.rule('C14.R18', 'a 64 bit key or time stays 64 bit: where the sources of this property call a repository function declared to return uint64_t (message and answer keys, the millisecond clock), the result is not converted implicitly to a narrower integer at the call - a key held in an unsigned int loses ID length, source, destination and command bytes and never matches a stored key again', minimum=3)
    _cmw.wide_result_rule(ctx, 'C14.R18', lambda f: f.relfile.startswith(('src/lib/ebus/device',)), 3)
    import rules.common as _cm
    ctx.rule('C14.R17', "a value is compared with a constant in the domain of its own type: in the sources of this property every comparison of a variable, member, element or call result with an integer constant (==, !=) has the constant inside the value range of the operand's own integer type before promotion - a symbol held in a signed char never equals 0xA9/0xAA/0xFE, so the escape, SYN or broadcast test behind it is dead for exactly the symbols it exists for", minimum=20)
    _cm.compare_domain_rule(ctx, 'C14.R17', lambda f: f.relfile.startswith(('src/lib/ebus/device', 'src/lib/ebus/transport.')), 20)
    r16(ctx)
    r15(ctx)
    r12(ctx)
    r13(ctx)
    r14(ctx)
    clock_rule(ctx, 'C14.R10')
    overflow_threshold_rule(ctx, 'C14.R9')
    vals = r1(ctx)
    r2(ctx, vals)
    r3(ctx, vals)
    r4(ctx, vals)
    r6(ctx)
    r7(ctx)
    r8(ctx)
    r11(ctx)
