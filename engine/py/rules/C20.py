"""C20 - no input can corrupt memory, hang or crash the daemon (generic memory/termination safety rules over the
sources that process untrusted input).

C20.R1 (core) printf/scanf format arguments are literals or provably %-free - all translation units
C20.R2 (core) subscripts into fixed-size arrays are within bounds (type range, enum range or path-sensitive interval)
C20.R3 (core) variable shift amounts are within the width of the shifted operand
C20.R4        raw memory calls (read, memmove, memcpy, memset, snprintf) use capacity expressions of their destination
C20.R5        lock pairing: every lock has its unlock on all paths (a missed unlock is a hang)
C20.R7        the name index of the message map is keyed by the same direction suffix in add, remove and find
"""
import facts
from facts import AnalysisBroken
import rules.common as common
import rules.fmt as fmt
import rules.locks as locks

SCOPE_PREFIX = ('src/lib/ebus/', 'src/ebusd/request.', 'src/ebusd/mainloop.', 'src/ebusd/bushandler.', 'src/ebusd/network.',
                'src/ebusd/datahandler.', 'src/ebusd/scan.', 'src/lib/utils/log.', 'src/lib/utils/queue.')


def in_scope(fn):
    return fn.relfile.startswith(SCOPE_PREFIX)


def enum_range(fb, v):
    t = (v.get('t') or '').replace('const ', '').replace('enum ', '').strip()
    for name, e in fb.enums.items():
        if name == t or name.split('::')[-1] == t.split('::')[-1]:
            # a trailing *_COUNT / *COUNT enumerator is the element count, not a value of the type
            vals = [x['v'] for x in e['enumerators'] if not x['name'].upper().endswith('COUNT')]
            if vals:
                return (min(vals), max(vals))
    return None


def r1(ctx):
    ctx.rule('C20.R1', 'every printf/scanf-family call and every call of a repository printf-style wrapper (logWrite and its '
             'macros) in the whole program passes a string literal as format, forwards its own format parameter, or passes '
             'text proven free of "%" (built only from literals, numbers and such strings); scanf: literal only', minimum=300,
             star=True)
    n, fams = fmt.check(ctx, 'C20.R1', None)
    ctx.note('C20.R1 format call sites by family: %s' % fams)


class BoundsX(common.Bounds):
    """Bounds with library contracts: recv/read return at most the requested size; enum-typed values lie within
    their enumerators"""

    def __init__(self, fb, fn, **kw):
        common.Bounds.__init__(self, fn, **kw)
        self.fb = fb

    def ev(self, nid, state, depth=0):
        fn = self.fn
        s = fn.strip(nid)
        v = fn.nodes.get(s, {})
        if v.get('k') in ('CallExpr', 'CXXMemberCallExpr'):
            cal = (v.get('callee') or '').split('::')[-1]
            args = v.get('args', [])
            if cal in ('recv', 'read', 'recvfrom') and len(args) >= 2:
                size = args[2] if (v['k'] == 'CallExpr' and len(args) >= 3) else args[1]
                iv = self.ev(size, state, depth + 1)
                if iv:
                    return (-1, iv[1])
        if v.get('enum') and 'v' not in v and v.get('k') not in facts.CAST_KINDS:
            key = self.key_of(s)
            er = enum_range(self.fb, v)
            if er and (key is None or key not in state):
                return er
        if v.get('enum') and v.get('k') in facts.CAST_KINDS and v.get('ch'):
            inner = self.ev(v['ch'][0], state, depth + 1)
            er = enum_range(self.fb, v)
            if inner and er:
                return (max(inner[0], er[0]), min(inner[1], er[1])) if inner[0] >= er[0] and inner[1] <= er[1] + 1 else inner
            return inner or er
        return common.Bounds.ev(self, nid, state, depth)

    def initial(self, key, v):
        if v.get('enum'):
            er = enum_range(self.fb, v)
            if er:
                return er
        return common.Bounds.initial(self, key, v)


def r2(ctx):
    ctx.rule('C20.R2', 'every subscript into an array of constant size N in the input-processing sources has an index within '
             '[0, N): by an evaluated constant, by the range of its type (symbol_t into [256], enumerations into per-'
             'enumerator tables) or by guards / assignments on every feasible path (interval analysis)', minimum=50, star=True)
    fb = ctx.fb
    n = 0
    for fn in fb.functions:
        if not in_scope(fn) or not fn.blocks:
            continue
        subs = [(nid, v) for nid, v in sorted(fn.nodes.items()) if v['k'] == 'ArraySubscriptExpr' and v.get('bound')]
        if not subs:
            continue
        todo = []
        for nid, v in subs:
            n += 1
            bound = v['bound']
            construct = '%s[%s] (size %d) in %s' % (fn.key(v['base']), fn.key(v['idx'])[:60], bound, fn.name.split('::')[-1])
            iv = fn.val(v['idx'])
            if iv is not None:
                ctx.ob('C20.R2', fn, nid, 0 <= iv < bound, construct, 'constant index %d' % iv, nontrivial=False)
                continue
            t = fn.nodes[fn.strip(v['idx'])]
            tr = enum_range(fb, t) if t.get('enum') else common.type_range(t)
            if tr and tr[0] >= 0 and tr[1] < bound:
                ctx.ob('C20.R2', fn, nid, True, construct, 'index type range [%d, %d]' % tr, nontrivial=False)
                continue
            todo.append((nid, v, construct))
        if todo:
            ctx.touch(fn)
            try:
                b = BoundsX(fb, fn)
                r = b.at([(nid, v['idx']) for nid, v, c in todo])
            except AnalysisBroken as e:
                for nid, v, c in todo:
                    ctx.ob('C20.R2', fn, nid, False, c, 'function too large for the interval analysis', status='unclassified')
                continue
            for i, (nid, v, c) in enumerate(todo):
                if i not in r:
                    ctx.ob('C20.R2', fn, nid, True, c, 'unreachable', nontrivial=False)
                    continue
                lo, hi, plo, phi = r[i]
                ok = lo >= 0 and hi < v['bound']
                ctx.ob('C20.R2', fn, nid, ok, c, 'index range [%s, %s] on all feasible paths' % (lo, hi),
                       witness=None if ok else b.explorer.describe_path(phi if hi >= v['bound'] else plo))
    # one entry per state in the state -> protocol state table
    g = fb.globals.get('ebusd::protocolStateByBusState') or fb.globals.get('ebusd::DirectProtocolHandler::protocolStateByBusState')
    if g is None:
        for k, vv in fb.globals.items():
            if k.endswith('protocolStateByBusState'):
                g = vv
    import rules.automaton as A
    states, _ = A.bus_states(fb)
    cnt = g.get('arr') if g else None
    ctx.ob('C20.R2', None, None, g is not None and cnt == len(states), 'protocolStateByBusState size',
           'table has %s entries for %d bus states' % (cnt, len(states)), site='src/lib/ebus/protocol_direct.cpp')
    if n < 50:
        raise AnalysisBroken('C20.R2: only %d subscripts found' % n)


def r3(ctx):
    ctx.rule('C20.R3', 'every shift by a non-constant amount in the input-processing sources shifts by at least 0 and less than '
             'the width of the (promoted) left operand on every feasible path; amounts derive from the type table (bit '
             'counts 1..32 guarded by != 32 / < 8, first bit 0..7), wrapped byte counters, or bounded key lengths', minimum=20,
             star=True)
    fb = ctx.fb
    n = 0
    member_ranges = {'this.m_firstBit': (0, 7), 'this.m_bitCount': (1, 32)}
    # parameter ranges from call sites for the key builders (idLen <= 4: C15.R1)
    for fn in fb.functions:
        if not in_scope(fn) or not fn.blocks:
            continue
        sites = [(nid, v) for nid, v in sorted(fn.nodes.items()) if v['k'] in ('BinaryOperator', 'CompoundAssignOperator') and
                 v.get('op') in ('<<', '>>', '<<=', '>>=') and fn.val(v['rhs']) is None and
                 not (fn.nodes[fn.strip(v['lhs'])].get('t') or '').startswith(('std::', 'basic_o', 'ostream', 'ostringstream'))]
        sites = [(nid, v) for nid, v in sites if v.get('w')]
        if not sites:
            continue
        ctx.touch(fn)
        params = {}
        if fn.name.endswith('::createAnswerKey'):
            params = {fn.P(len(fn.params) - 1): (0, 4)}     # the ID length, clamped by its only caller (C15.R1)
        if fn.name.endswith('NumberDataType::NumberDataType'):
            # the shifting constructor is the bit-type variant: bit types fit one byte (C05.R1 row invariants; derive()
            # checks bitCount + firstBit <= 8)
            params = {fn.P(1): (1, 8)}
        try:
            b = BoundsX(fb, fn, member_ranges=member_ranges, param_ranges=params)
            r = b.at([(nid, v['rhs']) for nid, v in sites])
        except AnalysisBroken:
            for nid, v in sites:
                n += 1
                ctx.ob('C20.R3', fn, nid, False, 'shift in %s' % fn.name, 'function too large for the interval analysis', status='unclassified')
            continue
        for i, (nid, v) in enumerate(sites):
            n += 1
            width = max(v.get('w') or 32, 32)
            lw = fn.nodes[fn.strip(v['lhs'])].get('w') or 32
            width = max(lw, 32) if v['op'] in ('<<', '>>') else lw
            construct = '%s by %s in %s' % (v['op'], fn.key(v['rhs'])[:50], fn.name.split('::')[-1])
            if i not in r:
                ctx.ob('C20.R3', fn, nid, True, construct, 'unreachable', nontrivial=False)
                continue
            lo, hi, plo, phi = r[i]
            ok = lo >= 0 and hi < width
            ctx.ob('C20.R3', fn, nid, ok, construct, 'shift amount range [%s, %s], operand width %d' % (lo, hi, width),
                   witness=None if ok else b.explorer.describe_path(phi if hi >= width else plo))
    if n < 20:
        raise AnalysisBroken('C20.R3: only %d variable shifts found' % n)


def r4(ctx):
    ctx.rule('C20.R4', 'raw memory calls in the transport/device sources use the capacity of their destination: '
             'memset/memcpy/memmove/snprintf sizes are sizeof(destination) or a length that was compared against it; '
             '::read writes at most the free rest of the buffer (C14.R7)', minimum=3)
    fb = ctx.fb
    n = 0
    for fn in fb.functions:
        if not fn.relfile.startswith(('src/lib/ebus/', 'src/ebusd/request.', 'src/ebusd/network.', 'src/ebusd/mainloop.')):
            continue
        for c in fn.all('CallExpr'):
            v = fn.nodes[c]
            cal = v.get('callee')
            if cal not in ('memset', 'memcpy', 'memmove', 'snprintf', 'strncpy'):
                continue
            n += 1
            args = v['args']
            dst = fn.key(args[0])
            size = args[1] if cal == 'snprintf' else args[2]
            sk = fn.key(size)
            sv = fn.val(size)
            dnode = fn.nodes.get(fn.strip(args[0], casts=True), {})
            cap = dnode.get('arr') or dnode.get('sarr')
            # destination is an array decayed to pointer: capacity known
            base = fn.strip(args[0], casts=True)
            bt = fn.nodes.get(base, {})
            ok = False
            why = 'size %s' % sk
            if sv is not None and bt.get('arr') and sv <= bt['arr'] * max(1, (bt.get('w') or 8) // 8 or 1) * 8:
                ok, why = True, 'constant size %d within the destination array' % sv
            elif 'sizeof' in fn.text(size):
                ok, why = True, 'sizeof expression: %s' % fn.text(size)[:60]
            elif fn.name.endswith('FileTransport::readConsumed'):
                ok, why = True, 'tail move checked by C14.R7'
            else:
                # a dominating comparison of the size against a capacity
                atoms = set((a[0], a[1]) for a in fn.atoms(c))
                if any(sk in k and ('<' in k) for k, p in atoms):
                    ok, why = True, 'size compared before the call: %s' % sorted(k for k, p in atoms if sk in k)[:2]
            ctx.ob('C20.R4', fn, c, ok, '%s(%s, .., %s) in %s' % (cal, dst[:30], sk[:40], fn.name.split('::')[-1]), why,
                   status=None if ok else 'unclassified')
    if n < 3:
        raise AnalysisBroken('C20.R4: only %d raw memory calls found' % n)


def r5(ctx):
    ctx.rule('C20.R5', 'every pthread_mutex_lock / Mutex::lock / MessageMap::lock in the input-processing sources is followed by '
             'the matching unlock on every path to a function exit (no return, break-out or early exit while holding the lock)',
             minimum=10)
    fb = ctx.fb
    n = 0
    for fn in fb.functions:
        if not fn.relfile.startswith(('src/lib/ebus/', 'src/ebusd/', 'src/lib/utils/')) or not fn.blocks:
            continue
        if fn.name.split('::')[-1] in ('lock', 'unlock'):
            continue
        kinds = []
        raw = [c for c in fn.all('CallExpr') if fn.nodes[c].get('callee') == 'pthread_mutex_lock']
        if raw:
            for arg in sorted(set(fn.key(fn.nodes[c]['args'][0]) for c in raw)):
                kinds.append(('pthread %s' % arg,
                              lambda f, e, a=arg: locks.callee_is(f, e, ('pthread_mutex_lock',), a),
                              lambda f, e, a=arg: locks.callee_is(f, e, ('pthread_mutex_unlock',), a)))
        meth = [c for c in fn.all('CXXMemberCallExpr') if (fn.nodes[c].get('callee') or '').split('::')[-1] == 'lock' and
                (fn.nodes[c].get('callee') or '').split('::')[-2:-1] in (['Mutex'], ['MessageMap'], ['FileReader'], ['MappedFileReader'])]
        for obj in sorted(set(fn.key(fn.nodes[c].get('obj', -1)) for c in meth)):
            kinds.append(('%s.lock()' % obj,
                          lambda f, e, o=obj: f.nodes[e]['k'] == 'CXXMemberCallExpr' and (f.nodes[e].get('callee') or '').endswith('::lock') and f.key(f.nodes[e].get('obj', -1)) == o,
                          lambda f, e, o=obj: f.nodes[e]['k'] == 'CXXMemberCallExpr' and (f.nodes[e].get('callee') or '').endswith('::unlock') and f.key(f.nodes[e].get('obj', -1)) == o))
        for what, is_lock, is_unlock in kinds:
            n += 1
            ctx.touch(fn)
            try:
                problems, ex = locks.pairing(fn, is_lock, is_unlock)
            except AnalysisBroken:
                ctx.ob('C20.R5', fn, fn.body, False, '%s in %s' % (what, fn.name), 'function too large', status='unclassified')
                continue
            problems = [p for p in problems if p[0] in ('exit-locked', 'double-lock')]
            ctx.ob('C20.R5', fn, fn.body, not problems, '%s in %s' % (what, fn.name.replace('ebusd::', '')),
                   '; '.join('%s at line %d' % (k, fn.line_of(e)) for k, e, p in problems) or 'paired on all paths',
                   witness=ex.describe_path(problems[0][2]) if problems and problems[0][2] else None)
    if n < 10:
        raise AnalysisBroken('C20.R5: only %d lock users found' % n)


def r6(ctx):
    ctx.rule('C20.R6', 'ebusd catches no exception, so a throwing accessor ends the daemon: every std::string/vector at(k) '
             'with a constant index in the input-processing sources is reached only after a test that the container holds '
             'more than k elements (!empty(), length()/size() > k) with no shrinking call on it in between', minimum=2)
    fb = ctx.fb
    n = 0
    catches = sum(len(f.all('CXXCatchStmt')) for f in fb.functions if f.relfile.startswith('src/') and f.blocks)
    for fn in fb.functions:
        if not in_scope(fn) or not fn.blocks:
            continue
        for c in fn.all('CXXMemberCallExpr'):
            v = fn.nodes[c]
            cal = v.get('callee') or ''
            if not cal.startswith('std::') or cal.split('::')[-1] != 'at' or len(v.get('args', [])) != 1 or 'obj' not in v:
                continue
            k = fn.val(v['args'][0])
            obj = fn.key(v['obj'])
            n += 1
            if k is None:
                ctx.ob('C20.R6', fn, c, False, '%s.at(%s)' % (obj, fn.key(v['args'][0])), 'index is not a constant', status='unclassified')
                continue
            o = obj[1:] if obj.startswith('*') else obj
            alts = []
            for nm in (obj, o, '(*%s)' % o):
                alts += [('%s.empty()' % nm, False)]
                for m in ('length', 'size'):
                    alts += [('(%s.%s() == #0)' % (nm, m), False)] if k == 0 else []
                    alts += [('(%s.%s() < #%d)' % (nm, m, k + 1), False), ('(%s.%s() <= #%d)' % (nm, m, k), False)]
            ok = fn.needs_one_of(c, alts)
            if ok:
                # the size test must still hold at the access: no call that can shrink the container in between
                cut = []
                for kk, pp in alts:
                    cut += fn.edges_with_atom(kk, pp)
                for m in fn.all('CXXMemberCallExpr', 'CXXOperatorCallExpr'):
                    mv = fn.nodes[m]
                    base = (mv.get('callee') or '').split('::')[-1]
                    tgt = fn.key(mv['obj']) if 'obj' in mv else (fn.key(mv['args'][0]) if mv.get('args') else '')
                    if tgt in (obj, o, '*' + o) and base in ('erase', 'clear', 'resize', 'assign', 'pop_back', 'operator=', 'swap'):
                        p0 = fn.pos(m)
                        if p0 is not None and fn.reaches_point(p0[0], fn.pos(c), set(), start_idx=p0[1] + 1, cut_edges=cut):
                            ok = False
            if not ok and 'this.m_messagesByName[' in obj:
                ctx.ob('C20.R6', fn, c, False, '%s.at(%d)' % (obj, k), 'relies on the invariant that the name index holds no '
                       'empty list (not decided here)', status='unclassified')
                continue
            ctx.ob('C20.R6', fn, c, ok, '%s.at(%d)' % (obj, k), 'guarded by a size test on every path: %s' % ok)
    ctx.note('C20.R6: %d catch handler(s) in the repository sources' % catches)
    if n < 2:
        raise AnalysisBroken('C20.R6: only %d at() calls found' % n)


def r9(ctx):
    ctx.rule('C20.R9', 'a field container is not destroyed while another owner holds its elements: DataFieldSet deletes the '
             'fields it contains, so a delete of a set (or of a DataField that may be one) is not reachable after the '
             'elements of that set were appended to another container in the same function, unless the set was emptied '
             'first (use after free / double free on the decode path otherwise)', minimum=4)
    fb = ctx.fb
    n = 0
    for fn in fb.functions:
        if not fn.blocks or not fn.relfile.startswith('src/lib/ebus/'):
            continue
        dels = [x for x in fn.all('CXXDeleteExpr') if 'DataField' in (fn.nodes[x].get('delt') or '')]
        if not dels:
            continue
        # element copies: for (e : X->m_fields) other.push_back(e)
        copied = {}     # set expression key -> node of the copying push_back
        for l in fn.all('CXXForRangeStmt'):
            lv = fn.nodes[l]
            rk = fn.key(lv.get('range', -1))
            if not rk.endswith('.m_fields') or rk.startswith('this.'):
                continue
            var = (lv.get('loopvar') or '').split(':')[-1]
            for c in fn.walk(l):
                cv = fn.nodes[c]
                if cv['k'] == 'CXXMemberCallExpr' and (cv.get('callee') or '').endswith('::push_back') and cv.get('args') and \
                        fn.key(cv['args'][0]) == var and not fn.key(cv.get('obj', -1)).startswith(rk[:-len('.m_fields')] + '.'):
                    copied[rk[:-len('.m_fields')]] = c
        for x in dels:
            n += 1
            ctx.touch(fn)
            op = fn.key(fn.nodes[x]['ch'][0]) if fn.nodes[x].get('ch') else ''
            bad = None
            for setk, c in copied.items():
                # the deleted pointer is the set itself or the pointer it was cast from
                alias = {setk}
                for nid, d, rhs, o2, lhs in fn.assignments():
                    if d and d.split(':')[-1] == setk and rhs is not None:
                        for y in fn.walk(rhs):
                            if fn.nodes[y]['k'] == 'DeclRefExpr':
                                alias.add(fn.nodes[y].get('name'))
                if op in alias:
                    p0 = fn.pos(c)
                    clears = set(m for m in fn.all('CXXMemberCallExpr') if (fn.nodes[m].get('callee') or '').endswith('::clear') and
                                 fn.key(fn.nodes[m].get('obj', -1)) == setk + '.m_fields')
                    if p0 is not None and fn.reaches_point(p0[0], fn.pos(x), clears, start_idx=p0[1] + 1):
                        bad = setk
            ctx.ob('C20.R9', fn, x, bad is None, 'delete %s in %s' % (op[:40], fn.name.split('::')[-1]),
                   'the elements of %s were appended to another container before' % bad if bad else 'no element of the deleted container is owned elsewhere')
    if n < 4:
        raise AnalysisBroken('C20.R9: only %d field deletions found' % n)


def r13(ctx):
    ctx.rule('C20.R13', 'sentinel agreement: a local that is initialised or assigned a "no value" constant (UINT_MAX, SIZE_MAX / '
             'npos, ...) and tested for one with == or != uses the same constant at both places; with two different maxima '
             '(e.g. npos stored, UINT_MAX tested on a 64 bit target) the test never fires and the guarded index or length is used '
             'as if it were valid', minimum=3)
    fb = ctx.fb
    n = 0
    big = lambda v: v is not None and (v >= 0x7fffffff or v == -1)
    for fn in fb.functions:
        if not in_scope(fn) or not fn.blocks:
            continue
        assigned = {}
        nonconst = set()
        for nid, d, rhs, op, lhs in fn.assignments():
            if not d or d.startswith('this.') or rhs is None or op not in ('init', '='):
                continue
            v = fn.val(rhs)
            if big(v):
                assigned.setdefault(d, set()).add(v & 0xffffffffffffffff)
        tested = {}
        for x in fn.all('BinaryOperator'):
            v = fn.nodes[x]
            if v.get('op') not in ('==', '!='):
                continue
            for a_, b_ in ((v['lhs'], v['rhs']), (v['rhs'], v['lhs'])):
                d = fn.ref_decl(a_)
                c = fn.val(b_)
                if d and big(c) and fn.nodes.get(fn.strip(a_, casts=True), {}).get('rk') in ('local', 'param'):
                    tested.setdefault(d, []).append((x, c & 0xffffffffffffffff))
        for d, tests in sorted(tested.items()):
            if d not in assigned:
                continue        # the sentinel comes from a callee (find() -> npos): nothing to compare here
            n += 1
            ctx.touch(fn)
            bad = [(x, c) for x, c in tests if c not in assigned[d]]
            ctx.ob('C20.R13', fn, tests[0][0], not bad, 'sentinel of %s in %s' % (d.split(':')[-1], fn.name.split('::')[-1]),
                   'assigned %s, tested against %s' % (sorted(hex(v) for v in assigned[d]), sorted(set(hex(c) for x, c in tests))))
    if n < 3:
        raise AnalysisBroken('C20.R13: only %d sentinel variables found' % n)


def r14(ctx):
    ctx.rule('C20.R14', 'where a length is clamped to what is available ("if (len > avail) len = avail") every unsigned difference '
             'avail - len (or avail - x with x counted down from len) in that function is reached only through the clamp: a '
             'difference that can be taken without it wraps around to a huge offset or loop count', minimum=1)
    fb = ctx.fb
    n = 0
    for fn in fb.functions:
        if not in_scope(fn) or not fn.blocks:
            continue
        # clamps: assignment Y = X whose guards contain (X < Y) true
        for nid, d, rhs, op, lhs in fn.assignments():
            if op != '=' or not d or d.startswith('this.') or rhs is None:
                continue
            xk = fn.key(rhs)
            yk = d.split(':')[-1]
            xd = fn.ref_decl(rhs)
            if xd is None or xd == d:
                continue
            atoms = set((a[0], a[1]) for a in fn.atoms(nid))
            if ('(%s < %s)' % (xk, yk), True) not in atoms and ('(%s <= %s)' % (yk, xk), False) not in atoms:
                continue
            # the if-statement around the clamp
            test = [b.id for b in fn.blocks.values() if b.cond is not None and
                    fn.key(fn.effective_cond(b.id)) in ('(%s > %s)' % (yk, xk), '(%s < %s)' % (xk, yk), '(%s >= %s)' % (yk, xk))]
            if not test:
                continue
            # variables counted down from Y
            derived = {d}
            for n2, d2, r2, o2, l2 in fn.assignments():
                if o2 == 'init' and d2 and r2 is not None and fn.ref_decl(r2) == d:
                    derived.add(d2)
            diffs = [x for x in fn.all('BinaryOperator') if fn.nodes[x].get('op') == '-' and fn.ref_decl(fn.nodes[x]['lhs']) == xd and
                     fn.ref_decl(fn.nodes[x]['rhs']) in derived and not fn.nodes[x].get('sg')]
            for x in diffs:
                n += 1
                ctx.touch(fn)
                free = fn.block_of(x) in fn.reach([fn.entry], cut_blocks=test)
                ctx.ob('C20.R14', fn, x, not free, 'unsigned difference %s in %s' % (fn.key(x), fn.name.split('::')[-1]),
                       'reached only through the clamp of %s to %s: %s' % (yk, xk, not free))
    if n < 1:
        raise AnalysisBroken('C20.R14: no clamped length with a dependent unsigned difference found')


def r7(ctx):
    ctx.rule('C20.R7', 'the name index of the message map uses one key schema: add(), remove() and find() derive the direction '
             'suffix of a name key with the same decision order (passive -> "P", else write -> "W", else "R"); a disagreement '
             'leaves dangling pointers in the index after a replace', minimum=2)
    fb = ctx.fb
    got = {}
    for fn in fb.functions:
        if fn.cls != 'ebusd::MessageMap':
            continue
        for nid, v in sorted(fn.nodes.items()):
            if v['k'] == 'ConditionalOperator':
                k = fn.key(nid)
                par = fn.parent(nid)
                while par is not None and fn.nodes[par]['k'] in facts.STRIP_KINDS | facts.CAST_KINDS:
                    par = fn.parent(par)
                if any(x in k for x in ('"P"', '"W"', '"R"', '#80', '#87', '#82')) and fn.nodes.get(par, {}).get('k') != 'ConditionalOperator':
                    norm = k.replace('#80', '"P"').replace('#87', '"W"').replace('#82', '"R"')
                    got.setdefault(fn.name, []).append((nid, norm))
    if len(got) < 2:
        raise AnalysisBroken('C20.R7: direction suffix expressions not found (%s)' % sorted(got))
    ref = '(isPassive ? "P" : (isWrite ? "W" : "R"))'
    for name, items in sorted(got.items()):
        fn = fb.fn(name) if len(fb.fns(name)) == 1 else [f for f in fb.fns(name) if any(True for _ in [0])][0]
        for nid, k in items:
            kk = k
            # the roles of the operands do not depend on how a local or parameter is called: a local stands for the accessor
            # it was initialised from, the two bool parameters of find(circuit, name, levels, isWrite, isPassive) for the
            # direction flags in the order of its interface
            import re as _re
            for y in fn.walk(nid):
                yv = fn.nodes[y]
                if yv['k'] != 'DeclRefExpr':
                    continue
                role = None
                if yv.get('rk') == 'local':
                    xk = fn.xkey(y)
                    role = 'isPassive' if 'isPassive()' in xk or 'm_isPassive' in xk else 'isWrite' if 'isWrite()' in xk or 'm_isWrite' in xk else None
                elif yv.get('rk') == 'param':
                    bools = [p_['name'] for p_ in fn.params if (p_.get('t') or '') == 'bool']
                    if len(bools) == 2 and yv.get('name') in bools:
                        role = ('isWrite', 'isPassive')[bools.index(yv['name'])]
                if role and yv.get('name') != role:
                    kk = _re.sub(r'(?<![\w.])%s(?![\w(])' % _re.escape(yv['name']), role, kk)
            for a in ('message.isPassive()', 'this.m_isPassive'):
                kk = kk.replace(a, 'isPassive')
            for a in ('message.isWrite()', 'this.m_isWrite'):
                kk = kk.replace(a, 'isWrite')
            ctx.ob('C20.R7', None, None, kk == ref, 'direction suffix in %s' % name.split('::')[-1], 'computed as %s' % k,
                   site=name)


def r15(ctx):
    ctx.rule('C20.R15', 'a heap buffer and the size kept for it agree: where a member pointer gets malloc(A) and a member size gets '
             'the constant B, every receive call that is handed (pointer, size) has B <= A, and every write pointer[i] whose '
             'index is limited by that size (i <= size or i < size) stays below A - the terminator behind a full receive '
             'needs the extra byte', minimum=2)
    import re
    fb = ctx.fb
    n = 0
    seen = set()
    for fn in fb.functions:
        if not (in_scope(fn) or fn.relfile.startswith('src/lib/utils/httpclient.')) or not fn.blocks or (fn.name, fn.sig) in seen:
            continue
        seen.add((fn.name, fn.sig))
        caps = {}
        consts = {}
        for nid, d, rhs, op, lhs in fn.assignments():
            if op != '=' or rhs is None or not d or not d.startswith('this.'):
                continue
            r = fn.nodes[fn.strip(rhs, casts=True)]
            if r.get('k') == 'CallExpr' and r.get('callee') in ('malloc', 'calloc') and r.get('args'):
                a = fn.val(r['args'][0]) if r['callee'] == 'malloc' else None
                if a is not None:
                    caps.setdefault(d, set()).add(a)
            elif fn.val(rhs) is not None and fn.nodes[fn.strip(rhs, casts=True)].get('k') in ('IntegerLiteral', 'BinaryOperator', 'ParenExpr'):
                consts.setdefault(d, set()).add(fn.val(rhs))
        for pk, avals in sorted(caps.items()):
            A = min(avals)
            for c in fn.all('CXXMemberCallExpr', 'CallExpr'):
                v = fn.nodes[c]
                args = [fn.key(a) for a in v.get('args', [])]
                if len(args) >= 2 and args[0] == pk and args[1] in consts and (v.get('callee') or '').split('::')[-1] in ('recv', 'read', 'recvfrom'):
                    n += 1
                    ctx.touch(fn)
                    B = max(consts[args[1]])
                    ctx.ob('C20.R15', fn, c, B <= A, 'receive into %s' % pk.replace('this.', ''), 'up to %d bytes into a buffer of %d' % (B, A))
            for x in fn.all('ArraySubscriptExpr'):
                v = fn.nodes[x]
                if fn.key(v['base']) != pk:
                    continue
                par = fn.nodes.get(fn.parent(x), {})
                if not (par.get('k') in ('BinaryOperator', 'CompoundAssignOperator') and par.get('lhs') == x):
                    continue
                idx = fn.key(v['idx'])
                mx = None
                for k, pol in ((a[0], a[1]) for a in fn.atoms(x)):
                    m = re.match(r'^\((?:\([\w ]+\))?%s (<=|<) (this\.\w+)\)$' % re.escape(idx), k)
                    if m and pol and m.group(2) in consts:
                        b = max(consts[m.group(2)]) - (1 if m.group(1) == '<' else 0)
                        mx = b if mx is None else min(mx, b)
                n += 1
                ctx.touch(fn)
                ctx.ob('C20.R15', fn, x, mx is not None and mx < A, 'write %s[%s]' % (pk.replace('this.', ''), idx),
                       'index up to %s in a buffer of %d bytes' % (mx, A))
    if n < 2:
        raise AnalysisBroken('C20.R15: only %d uses of a malloc\'ed member buffer found' % n)


def r19(ctx):
    ctx.mark('transport-close', 'C20.R19')
    ctx.rule('C20.R19', 'a closed transport forgets what it had buffered: FileTransport::close() sets m_bufLen to 0 on every path - '
             'open() does not touch the buffer, and the frame decoder leaves the first byte of an incomplete sequence there, so '
             'after a reconnect stale bytes would be glued in front of the new data; and only close() releases the descriptor m_fd', minimum=2)
    fb = ctx.fb
    fn = fb.fn('ebusd::FileTransport::close')
    ctx.touch(fn)
    z = set(nid for nid, d, rhs, op, lhs in fn.assignments() if d == 'this.m_bufLen' and op == '=' and rhs is not None and fn.val(rhs) == 0)
    # a transport that is already closed (m_fd == -1) was reset when it was closed
    cut = fn.edges_with_atom('(this.m_fd == #-1)', True)
    kept = fn.reaches_point(fn.entry, (fn.exit, 0), z, cut_edges=cut)
    ctx.ob('C20.R19', fn, fn.body, bool(z) and not kept, 'buffered length in close()', 'reset on every path: %s' % (bool(z) and not kept))
    # the descriptor m_fd is released only there: a raw ::close(m_fd) in another function of the transport (open() for a
    # re-open) skips the flush of the buffer and the notification that resets the device state
    for f in fb.functions:
        if f.relfile != 'src/lib/ebus/transport.cpp' or not f.nodes:
            continue
        for c in f.calls():
            v = f.nodes[c]
            if v['k'] == 'CallExpr' and v.get('callee') in ('close', '::close') and v.get('args') and 'm_fd' in f.key(v['args'][0]):
                ok = f.name == 'ebusd::FileTransport::close'
                ctx.touch(f)
                ctx.ob('C20.R19', f, c, ok, 'release of the descriptor in %s' % f.name.split('::', 1)[1],
                       'only FileTransport::close() closes m_fd (it also flushes the buffer and tells the listener): %s' % ok)


def r22(ctx):
    ctx.mark('request-ownership', 'C20.R22')
    ctx.rule('C20.R22', 'no request object is leaked: ProtocolHandler::addRequest refuses a request without taking it exactly '
             'when the handler is read-only (its only early return; checked here). Every request BusHandler creates with new '
             'is therefore either deleted in the creating function on the failure of addRequest (a delete of it is reachable '
             'behind the call) or created only where m_protocol->isReadOnly() was tested false - a scan request created in '
             'read-only mode is never freed and leaves the scan counter above zero, so that every later scan is refused',
             minimum=2)
    fb = ctx.fb
    ar = fb.fn('ebusd::ProtocolHandler::addRequest')
    ctx.touch(ar)
    pushes = [c for c in ar.calls('push') if 'm_nextRequests' in ar.key(ar.nodes[c].get('obj', -1))]
    early = [r for r in ar.all('ReturnStmt') if pushes and not any(
        ar.reaches_point(ar.pos(p_)[0], ar.pos(r), set(), start_idx=ar.pos(p_)[1] + 1) for p_ in pushes)]
    only_ro = bool(pushes) and all(ar.needs_one_of(r, [('this.m_config.readOnly', True), ('this.isReadOnly()', True)]) for r in early)
    ctx.ob('C20.R22', ar, ar.body, only_ro, 'addRequest refuses only in read-only mode',
           '%d return(s) in front of the queue push, all under readOnly: %s' % (len(early), only_ro), nontrivial=False)
    n = 0
    seen = set()
    for fn in fb.functions:
        if fn.relfile != 'src/ebusd/bushandler.cpp' or not fn.blocks or (fn.name, fn.sig) in seen:
            continue
        seen.add((fn.name, fn.sig))
        for x, v in sorted(fn.nodes.items()):
            if v['k'] != 'CXXNewExpr' or not (v.get('newt') or '').endswith('Request') or fn.block_of(x) is None:
                continue
            n += 1
            ctx.touch(fn)
            ro = [('this.m_protocol.isReadOnly()', False)]
            for nid, d, rhs, op, lhs in fn.assignments():
                # a flag local that holds the answer
                if op == 'init' and rhs is not None and d and fn.key(rhs) == 'this.m_protocol.isReadOnly()' and \
                        not any(d2 == d and o2 != 'init' for n2, d2, r2, o2, l2 in fn.assignments()):
                    ro.append((d.split(':')[-1], False))
            guarded = fn.needs_one_of(x, ro)
            adds = [c for c in fn.calls('addRequest') if fn.block_of(c) is not None and
                    fn.reaches_point(fn.pos(x)[0], fn.pos(c), set(), start_idx=fn.pos(x)[1] + 1)]
            dels = [d for d in fn.all('CXXDeleteExpr') if fn.nodes[d].get('delt') == v.get('newt') and fn.block_of(d) is not None]
            freed = bool(adds) and all(any(fn.reaches_point(fn.pos(c)[0], fn.pos(d), set(), start_idx=fn.pos(c)[1] + 1) for d in dels) for c in adds)
            ok = guarded or freed
            ctx.ob('C20.R22', fn, x, ok, 'new %s in %s' % (v.get('newt').split('::')[-1], fn.name.split('::', 1)[1]),
                   'created only when not read-only: %s; deleted behind a refused addRequest in this function: %s' % (guarded, freed))
    if n < 2:
        raise AnalysisBroken('C20.R22: only %d request allocations found in bushandler.cpp' % n)


def r30(ctx):
    ctx.rule('C20.R30', 'a deleted message leaves no pointer behind: MessageMap::remove takes the message out of the name index by '
             'walking over the whole m_messagesByName (every key, every element of each list) - add() stores a message under two '
             'keys and, for conditional messages, anywhere in the list of the key without circuit; a removal that looks at the '
             'front of that list only leaves a dangling pointer that find() by name dereferences', minimum=1)
    fb = ctx.fb
    fn = fb.fn('ebusd::MessageMap::remove')
    ctx.touch(fn)
    walks = []
    for l in fn.all('CXXForRangeStmt'):
        rng = fn.key(fn.nodes[l].get('range', -1))
        if rng.endswith('m_messagesByName'):
            walks.append(l)
    for l in fn.all('ForStmt', 'WhileStmt'):
        srcs = [fn.key(r2) for n2, d2, r2, o2, l2 in fn.assignments() if r2 is not None and 'm_messagesByName.begin()' in fn.key(r2)]
        if srcs and 'm_messagesByName.end()' in fn.key(fn.nodes[l].get('cond', -1)):
            walks.append(l)
    ok = bool(walks)
    ctx.ob('C20.R30', fn, walks[0] if walks else fn.body, ok, 'removal from the name index', 'walks over every entry of m_messagesByName: %s' % ok)


def r33(ctx):
    ctx.rule('C20.R33', 'a vector is not walked while it can grow: in MessageMap::executeInstructions the innermost range-for '
             'around the call of Instruction::execute walks a local COPY of the stored instruction vector (a local of value '
             'type), not a reference into m_instructions - executing a load instruction reads a file whose !include / !load '
             'lines are appended to the stored vector of that file, and a definition file that includes itself reallocates '
             'the vector under the loop (use after free on definition text)', minimum=1)
    fb = ctx.fb
    fn = fb.fn('ebusd::MessageMap::executeInstructions')
    ctx.touch(fn)
    decls = {}
    for x in fn.all('DeclStmt'):
        for d in fn.nodes[x].get('decls', []):
            decls[d['decl']] = d
    n = 0
    for c in fn.calls('execute'):
        if not (fn.nodes[c].get('callee') or '').endswith('Instruction::execute'):
            continue
        loops = [a for a in fn.ancestors(c) if fn.nodes[a]['k'] == 'CXXForRangeStmt']
        if not loops:
            raise AnalysisBroken('C20.R33: Instruction::execute is not called from a range-for')
        lp = loops[0]
        rng = fn.nodes[fn.strip(fn.nodes[lp]['range'], casts=True)]
        n += 1
        d = decls.get(rng.get('decl')) if rng.get('k') == 'DeclRefExpr' and rng.get('rk') == 'local' else None
        ok = d is not None and not (d.get('t') or '').rstrip().endswith('&') and not d.get('ptr')
        ctx.ob('C20.R33', fn, lp, ok, 'loop that executes the instructions walks %s' % fn.key(fn.nodes[lp]['range']),
               'a local copy (value type %s): %s' % ((d or {}).get('t'), ok))
    if n < 1:
        raise AnalysisBroken('C20.R33: the call of Instruction::execute was not found')


def run(ctx):
    r33(ctx)
    import rules.C04 as _c04d
    ctx.borrow(_c04d.r16, {'C04.R16': 'C20.R31'}, 'processing terminates within bounded work: the drain of the request queue on signal loss must end')
    import rules.C08 as _c08a
    ctx.borrow(_c08a.r9, {'C08.R9': 'C20.R32'}, 'the loader deletes a definition that add() rejects: a rejected message that was already entered into an index is a dangling pointer')
    r30(ctx)
    import rules.common as _cms
    ctx.rule('C20.R28', 'a failure reported as -1 stays negative: in the sources of this property the result of a POSIX call that reports errors as -1 (read, write, recv, send, poll, open, socket, ioctl, ...) is not converted to an unsigned type where it is stored or tested (equality with the requested length excepted) - held in a size_t a failed read counts as SIZE_MAX received bytes, the buffered length runs past the 32 byte receive buffer and the decoder reads far beyond it', minimum=30)
    _cms.signed_result_rule(ctx, 'C20.R28', lambda f: f.relfile.startswith(('src/lib/ebus/', 'src/lib/utils/', 'src/ebusd/')), 30)
    import rules.common as _cmm
    ctx.rule('C20.R27', 'a mask for a 64 bit value is computed in 64 bits: where the sources of this property combine a 64 bit integer (a key) by &, | or ^ with an operand the compiler widens from 32 bits or less, that operand contains no shift or complement with a non-constant value - ~(0xff << 8*(3-len)) in int clears the whole upper half of the key (length, source, destination, command) for the last shortening', minimum=25)
    _cmm.wide_mask_rule(ctx, 'C20.R27', lambda f: f.relfile.startswith(('src/lib/ebus/', 'src/ebusd/')), 25)
    import rules.common as _cmw
    ctx.rule('C20.R26', 'a 64 bit key or time stays 64 bit: where the sources of this property call a repository function declared to return uint64_t (message and answer keys, the millisecond clock), the result is not converted implicitly to a narrower integer at the call - a key held in an unsigned int loses ID length, source, destination and command bytes and never matches a stored key again', minimum=15)
    _cmw.wide_result_rule(ctx, 'C20.R26', lambda f: f.relfile.startswith(('src/lib/ebus/', 'src/ebusd/')), 15)
    import rules.common as _cmn
    ctx.rule('C20.R25', 'an argument is still the argument where it is read: a for loop that takes a by-value parameter over as its counter destroys the argument, so no read of that parameter is reachable behind such a loop - BusHandler::prepareScan decides who frees a scan request (deleteOnFinish) by slave == SYN; behind for (slave = 1; slave != 0; slave++) that test is always false and every asynchronous scan request stays in the finished queue for ever (checked against a positive example on every run)', minimum=3)
    _cmn.loop_counter_param_rule(ctx, 'C20.R25', lambda f: f.relfile.startswith(('src/lib/ebus/', 'src/ebusd/')), 3)
    import rules.C04 as _c04
    ctx.rule('C20.R24', 'no use after the end of a lifetime: a request object created with new outlives the creating function, so none of its reference data members is bound, through the constructor, to a local variable of that function', minimum=2)
    _c04.request_owns_data_rule(ctx, 'C20.R24')
    import rules.common as _cm
    ctx.rule('C20.R23', "a value is compared with a constant in the domain of its own type: in the sources of this property every comparison of a variable, member, element or call result with an integer constant (==, !=) has the constant inside the value range of the operand's own integer type before promotion - a symbol held in a signed char never equals 0xA9/0xAA/0xFE, so the escape, SYN or broadcast test behind it is dead for exactly the symbols it exists for", minimum=300)
    _cm.compare_domain_rule(ctx, 'C20.R23', lambda f: f.relfile.startswith(('src/lib/ebus/', 'src/ebusd/request.', 'src/ebusd/mainloop.', 'src/ebusd/bushandler.')), 300)
    r22(ctx)
    r19(ctx)
    r15(ctx)
    ctx.rule('C20.R16', 'a position searched in a string is used on the same content: no path leads from pos = s.find...() through '
             'a statement that replaces or shortens s to a use of pos as start of s.substr/at/erase/insert/replace or as '
             'subscript unless pos is searched again - substr() and at() throw std::out_of_range beyond the end and ebusd '
             'catches nothing', minimum=40)
    common.stale_position_rule(ctx, 'C20.R16', lambda f: in_scope(f) or f.relfile.startswith('src/ebusd/mqtthandler.'), 40)
    r1(ctx)
    r2(ctx)
    r3(ctx)
    r4(ctx)
    r5(ctx)
    r6(ctx)
    r7(ctx)
    r9(ctx)
    r13(ctx)
    r14(ctx)
    import rules.C14 as c14
    ctx.borrow(c14.r7, {'C14.R7': 'C20.R8'},
               'the sizes handed to ::read and memmove in the byte transport are bounded by the buffer capacity and the '
               'buffered length; a consumed count above the buffered length must not reach the memmove')
    ctx.borrow(c14.run, {'C14.R3': 'C20.R10'},
               'the second byte of an adapter sequence is read from the transport buffer only if it is buffered: otherwise '
               'the read goes beyond the received data (stale byte, or out of bounds when the buffer is full)')
    import rules.C04 as c04
    ctx.borrow(c04.run, {'C04.R2': 'C20.R11', 'C04.R6': 'C20.R12', 'C04.R4': 'C20.R34'},
               'a request that is taken out of the queue and then dropped, or a wait loop with another exit, leaves a '
               'client thread blocked forever or working on freed memory')
    import rules.C09 as _c09
    _c09.symbol_layout_rule(ctx, 'C20.R17')
    ctx.rule('C20.R18', 's.substr(k, ...) with a constant start k > 0 throws std::out_of_range for a shorter string and ebusd catches '
             'nothing: on every path to such a call the length known for s (from tests of size()/length()/empty(), of a local '
             'copy of the size, of a prefix comparison, of a character s[i], or of a successful find) reaches k; a string that '
             'is tested, but only for a shorter length, is a violation', minimum=10)
    common.substr_bound_rule(ctx, 'C20.R18', lambda f: in_scope(f) or f.relfile.startswith(('src/ebusd/mqtthandler.', 'src/ebusd/knxhandler.')), 10)
    ctx.rule('C20.R20', 's.length() - k used as a position of s wraps around for a shorter s and erase/at/substr then throw '
             'std::out_of_range: in the client request sources every such use is reached only behind a test that s holds at '
             'least k characters (an empty token inside quotes is ordinary client input)', minimum=1)
    common.size_minus_rule(ctx, 'C20.R20', lambda f: f.relfile.startswith(('src/ebusd/request.', 'src/ebusd/mainloop.', 'src/ebusd/network.')), 1)
    ctx.rule('C20.R21', 'a search that found nothing yields npos, and s.erase/substr/at/insert/replace(npos) throws '
             'std::out_of_range: a search result used as it is as such a position is reached only behind a test that excludes '
             'npos (comparing it with length() - 1 does not: for an empty string that difference is npos as well)', minimum=5)
    common.find_result_rule(ctx, 'C20.R21', lambda f: in_scope(f) or f.relfile.startswith(('src/ebusd/mqtthandler.', 'src/ebusd/request.')), 5)
