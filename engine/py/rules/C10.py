"""C10 - field layout (sibling agreement of the offset walkers).

C10.R1 (core) DataFieldSet::getLength, both read overloads and write walk the fields with the same byte/bit bookkeeping
C10.R2        bit fields are OR-ed into an already written byte only for the first byte of a partial-byte field
C10.R3/R4     per-field definition of number base / float format before every numeric insertion (same rules as C12.R3/R5)
"""
import facts
from facts import AnalysisBroken

WALKERS = [('ebusd::DataFieldSet::getLength', None), ('ebusd::DataFieldSet::read', 0), ('ebusd::DataFieldSet::read', 1),
           ('ebusd::DataFieldSet::write', None)]


def skeleton(fn):
    """bookkeeping skeleton of one walker"""
    sk = {}
    calls = [c for c in fn.all('CXXMemberCallExpr') if (fn.nodes[c].get('callee') or '').endswith('::hasFullByteOffset')]
    before = [c for c in calls if fn.val(fn.nodes[c]['args'][0]) == 0]
    after = [c for c in calls if fn.val(fn.nodes[c]['args'][0]) == 1]
    sk['n_before'], sk['n_after'] = len(before), len(after)
    if len(before) != 1 or len(after) != 1:
        return sk
    b, a = before[0], after[0]
    pb = fn.key(fn.nodes[a]['args'][1])
    sk['prevbit_same'] = fn.key(fn.nodes[b]['args'][1]) == pb
    # prevFull variable: target of the assignment from the "after" call
    pf = None
    for nid, d, rhs, op, lhs in fn.assignments():
        if rhs is not None and fn.strip(rhs) == a and lhs is not None:
            pf = fn.key(lhs)
            sk['after_assign'] = nid
    sk['prevfull'] = pf
    sk['prevbit'] = pb
    # initial values
    def init_of(name):
        base = name.split('[')[0]
        for nid, v in fn.nodes.items():
            if v['k'] == 'DeclStmt':
                for dd in v.get('decls', []):
                    if dd['name'] == base and 'init' in dd:
                        i = fn.nodes.get(fn.strip(dd['init']), {})
                        if i.get('k') == 'InitListExpr':
                            vals = [fn.val(c) for c in i.get('ch', [])]
                            return ('array', dd.get('arr'), vals)
                        return ('scalar', None, [fn.val(dd['init'])])
        return None
    sk['prevfull_init'] = init_of(pf) if pf else None
    sk['prevbit_init'] = init_of(pb)
    # cursor decrement guarded by !prevFull && !before-call
    decs = [(nid, d) for nid, d, rhs, op, lhs in fn.assignments() if op == '--']
    sk['decs'] = []
    for nid, d in decs:
        atoms = set((x[0], x[1]) for x in fn.atoms(nid))
        g1 = (pf, False) in atoms
        g2 = (fn.key(b), False) in atoms
        if g1 or g2:
            sk['decs'].append({'node': nid, 'cursor': d.split(':')[-1] if d else None, 'prevfull_false': g1, 'before_false': g2,
                               'extra': sorted(k for k, p in atoms if k not in (pf, fn.key(b)) and 'getPartType' not in k and
                                               '__begin' not in k and '__end' not in k)})
    # cursor advance
    adv = []
    for nid, d, rhs, op, lhs in fn.assignments():
        if d and sk['decs'] and d.split(':')[-1] == sk['decs'][0]['cursor'] and op in ('+=', '=') and rhs is not None:
            k = fn.key(rhs)
            if op == '=' and not k.startswith('(%s + ' % sk['decs'][0]['cursor']):
                continue
            adv.append((nid, k))
    sk['advance'] = adv
    # order: before-call < advance < after-call (dominance by position within the loop body: compare lines + reachability)
    if adv and sk.get('after_assign'):
        pa = fn.pos(adv[0][0])
        sk['order_ok'] = fn.block_of(sk['after_assign']) in fn.reach([pa[0]]) and \
            fn.block_of(adv[0][0]) in fn.reach([fn.block_of(b)]) and fn.line_of(b) < fn.line_of(adv[0][0]) <= fn.line_of(a)
    # the bookkeeping behind a field is done for every field of the part that was passed without an error
    if sk.get('after_assign'):
        import re
        sk['after_extra'] = sorted(k for k, p in set((x[0], x[1]) for x in fn.atoms(sk['after_assign']))
                                   if 'getPartType' not in k and '__begin' not in k and '__end' not in k and
                                   not (re.match(r'^\(\w+ < #0\)$', k) and not p) and not (re.match(r'^\(\w+ == #0\)$', k) and p))
    # part filter
    parts = [x for x in fn.all('BinaryOperator') if fn.nodes[x].get('op') in ('==', '!=') and 'getPartType()' in fn.key(x)]
    sk['part_filter'] = [fn.key(x) for x in parts]
    return sk


def r1(ctx):
    ctx.rule('C10.R1', 'the four walkers over the field list (getLength, read to raw, read to text, write) keep the same '
             'byte/bit bookkeeping: start with "previous field ended on a byte boundary" = true and previous first bit = -1 '
             '(every slot, for per-part arrays), step the cursor back by one exactly when neither the previous field ended '
             'on a boundary nor the current one starts on one (hasFullByteOffset(false, bit)), advance by the field length, '
             'then record hasFullByteOffset(true, bit); fields of the other part are skipped', minimum=4, star=True)
    fb = ctx.fb
    sks = []
    for name, nth in WALKERS:
        fns = fb.fns(name)
        fn = fns[nth] if nth is not None else (fns[0] if len(fns) == 1 else None)
        if fn is None:
            raise AnalysisBroken('C10.R1: walker %s not found uniquely' % name)
        ctx.touch(fn)
        sk = skeleton(fn)
        sks.append((fn, sk))
        problems = []
        if sk.get('n_before') != 1 or sk.get('n_after') != 1:
            problems.append('hasFullByteOffset before/after calls: %s/%s (expected 1/1)' % (sk.get('n_before'), sk.get('n_after')))
        else:
            if not sk.get('prevbit_same'):
                problems.append('before and after calls use different previous-bit variables')
            pfi, pbi = sk.get('prevfull_init'), sk.get('prevbit_init')
            def all_init(i, want):
                if not i:
                    return False
                kind, bound, vals = i
                if kind == 'array':
                    return bound is not None and len(vals) == bound and all(v == want for v in vals)
                return vals == [want]
            if not all_init(pfi, 1):
                problems.append('"previous field on byte boundary" does not start as true in every slot: %s' % (pfi,))
            if not all_init(pbi, -1):
                problems.append('previous first bit does not start as -1 in every slot: %s' % (pbi,))
            if len(sk.get('decs', [])) != 1:
                problems.append('%d guarded cursor decrements (expected 1)' % len(sk.get('decs', [])))
            else:
                d = sk['decs'][0]
                if not (d['prevfull_false'] and d['before_false']):
                    problems.append('cursor decrement not guarded by !previousFull && !hasFullByteOffset(false, bit)')
                if d['extra']:
                    problems.append('cursor decrement has extra conditions %s' % d['extra'])
            if len(sk.get('advance', [])) != 1:
                problems.append('%d cursor advances (expected 1)' % len(sk.get('advance', [])))
            elif 'getLength(' not in sk['advance'][0][1] and 'fieldLength' not in sk['advance'][0][1]:
                problems.append('cursor advanced by %s instead of the field length' % sk['advance'][0][1])
            if sk.get('after_extra'):
                problems.append('the bookkeeping behind a field depends on %s' % sk['after_extra'])
            if not sk.get('order_ok'):
                problems.append('order of decrement / advance / after-bookkeeping differs')
            if not sk.get('part_filter'):
                problems.append('fields of the other part are not skipped')
        ctx.ob('C10.R1', fn, fn.body, not problems, 'offset walker %s' % fn.sig.split('(')[0].split('::')[-1] +
               ('#%d' % nth if nth is not None else ''), '; '.join(problems) or 'bookkeeping skeleton as specified')


def r2(ctx):
    ctx.rule('C10.R2', 'NumberDataType::writeRawValue ORs the symbol into an existing byte only for the first byte of a field '
             'whose bit count is not a multiple of 8 and only if that byte was already written (offset inside the calculated '
             'data size); every other byte is assigned', minimum=2)
    fb = ctx.fb
    fn = fb.fn('ebusd::NumberDataType::writeRawValue')
    ctx.touch(fn)
    ors = [nid for nid, v in fn.nodes.items() if v['k'] == 'CompoundAssignOperator' and v.get('op') == '|=' and 'dataAt' in fn.key(v['lhs'])]
    asg = [nid for nid, v in fn.nodes.items() if v['k'] == 'BinaryOperator' and v.get('op') == '=' and 'dataAt' in fn.key(v['lhs'])]
    if len(ors) != 1 or len(asg) != 1:
        raise AnalysisBroken('C10.R2: store sites in writeRawValue not recognised (%d |=, %d =)' % (len(ors), len(asg)))
    atoms = set((a[0], a[1]) for a in fn.atoms(ors[0]))
    # "first byte of the field": the loop cursor still equals the value it was initialised with
    first = None
    for l in fn.all('ForStmt'):
        dds = fn.nodes.get(fn.nodes[l].get('init'), {}).get('decls', [])
        if dds and 'init' in dds[0] and dds[0]['name'] in fn.key(fn.nodes[ors[0]]['lhs']):
            first = '(%s == %s)' % (dds[0]['name'], fn.key(dds[0]['init']))
    if first is None:
        raise AnalysisBroken('C10.R2: byte loop of writeRawValue not recognised')
    need = [(first, True), ('((this.m_bitCount % #8) == #0)', False)]
    missing = [a for a in need if a not in atoms]
    inside = any('getCalculatedDataSize()' in k and p and ' < ' in k for k, p in atoms)
    ctx.ob('C10.R2', fn, ors[0], not missing and inside, 'OR into existing byte', 'missing %s; inside written data: %s' % (missing, inside))
    same = fn.key(fn.nodes[ors[0]]['lhs']) == fn.key(fn.nodes[asg[0]]['lhs'])
    ctx.ob('C10.R2', fn, asg[0], same, 'plain store', 'same target expression as the OR store: %s' % same)
    # pre-check for bit types: value fits the bit count
    rets = [r for r in fn.all('ReturnStmt') if fn.val(fn.nodes[r].get('val')) not in (0, None)]
    okb = any(('(this.m_bitCount < #8)', True) in set((a[0], a[1]) for a in fn.atoms(r)) for r in rets)
    ctx.ob('C10.R2', fn, fn.body, okb, 'bit field overflow rejected', 'values wider than the bit count are rejected: %s' % okb)


def r5(ctx):
    ctx.rule('C10.R5', 'SingleDataField::hasFullByteOffset leaves the bit bookkeeping up to date for the next field: whenever it is '
             'called for the position behind the field (after = true), every return is reached only after the "previous first '
             'bit" was written (-1 after a field that ends on a byte boundary, the first bit otherwise); a return that skips '
             'the write lets the next bit field be compared with a stale bit position', minimum=2)
    fb = ctx.fb
    fn = fb.fn('ebusd::SingleDataField::hasFullByteOffset')
    ctx.touch(fn)
    after, prev = fn.P(0), fn.P(1)
    writes = set(nid for nid, d, rhs, op, lhs in fn.assignments() if d and d.split(':')[-1] == prev and op != 'init')
    cut = fn.edges_with_atom(after, False)
    n = 0
    for r in fn.all('ReturnStmt'):
        n += 1
        skipped = not writes or fn.reaches_point(fn.entry, fn.pos(r), writes, cut_edges=cut)
        ctx.ob('C10.R5', fn, r, not skipped, 'return %s' % fn.key(fn.nodes[r].get('val', -1))[:30],
               'with %s set, %s is written on every path to this return: %s' % (after, prev, not skipped))
    # the value written for a boundary: -1
    vals = []
    for nid, d, rhs, op, lhs in fn.assignments():
        if nid in writes and rhs is not None:
            r0 = fn.nodes.get(fn.strip(rhs), {})
            vals += [fn.val(r0['then']), fn.val(r0['else'])] if r0.get('k') == 'ConditionalOperator' else [fn.val(rhs)]
    ctx.ob('C10.R5', fn, fn.body, -1 in vals, 'boundary marker', 'values written to %s: %s' % (prev, vals), nontrivial=False)
    if n < 2:
        raise AnalysisBroken('C10.R5: returns of hasFullByteOffset not found')

def r10(ctx):
    ctx.rule('C10.R10', 'the key a field gets in JSON output is its position among the non-ignored fields of the definition, whatever '
             'is filtered or printed: in the field loop of the formatting DataFieldSet::read every pass that goes on to the next '
             'field (no return, no break) advances the running output index exactly when an index is wanted and the field is '
             'not ignored - no path around the increment, whatever the read result or the name filter', minimum=1)
    fb = ctx.fb
    n = 0
    for fn in fb.fns('ebusd::DataFieldSet::read'):
        if not fn.blocks:
            continue
        incs = [(nid, d) for nid, d, rhs, op, lhs in fn.assignments() if d and 'outputindex' in d.split(':')[-1].lower() and op in ('++', '+=')]
        if not incs:
            continue
        nm = incs[0][1].split(':')[-1]
        heads = [b for b in fn.blocks.values() if b.cond is not None and '__begin' in fn.key(b.cond) and len(b.succs) == 2]
        if len(heads) != 1:
            raise AnalysisBroken('C10.R10: field loop of DataFieldSet::read not recognised')
        h = heads[0]
        n += 1
        ctx.touch(fn)
        cut = list(fn.edges_with_atom('(%s < #0)' % nm, True))
        for b in fn.blocks.values():
            if b.cond is not None and len(b.succs) == 2:
                for j_ in (0, 1):
                    for conj in facts.implied(fn, fn.effective_cond(b.id), j_ == 0):
                        for a in conj:
                            k, p = facts.atom_key(fn, a)
                            if k.endswith('.isIgnored()') and p and len(facts.implied(fn, fn.effective_cond(b.id), j_ == 0)) == 1:
                                cut.append((b.id, j_))
        body = h.succs[0]
        around = fn.reaches_point(body, (h.id, 0), set(x for x, _ in incs), cut_edges=cut)
        ctx.ob('C10.R10', fn, incs[0][0], not around, 'advance of the output index',
               'a pass over a non-ignored field can go on to the next field without advancing the index: %s' % around)
    if n < 1:
        raise AnalysisBroken('C10.R10: running output index not found in DataFieldSet::read')


def r11(ctx):
    import rules.common as _common
    ctx.rule('C10.R11', 'a field is encoded from its own text: where the field sources (data.cpp, datatype.cpp) take the input '
             'apart with std::getline into a token variable, the result of getline is looked at - at the end of the input '
             'getline leaves the previous token in place, and with the result discarded DataFieldSet::write hands the text of '
             'the previous field to the next one instead of reporting the missing value', minimum=4)
    _common.getline_result_rule(ctx, 'C10.R11', lambda f: f.relfile in ('src/lib/ebus/data.cpp', 'src/lib/ebus/datatype.cpp'), 4)


def r13(ctx):
    ctx.rule('C10.R13', 'two bit fields that start at the same bit never share a byte, and a bit field that starts behind the bits '
             'of the previous one does: SingleDataField::hasFullByteOffset, evaluated from its typed AST (bit position and width '
             'of the data type supplied as a model) inside the bookkeeping protocol that getLength / read / write run '
             '(if (!previousFull && !hasFullByteOffset(false, prev)) offset--; ...; previousFull = hasFullByteOffset(true, prev)), '
             'for every pair of sub-byte fields (first bit 0..7, width 1..7): with equal first bits the second field gets a '
             'new byte, with a first bit behind the last bit of the first field it stays in the same byte', minimum=1)
    import tinyeval
    fb = ctx.fb
    fn = fb.fn('ebusd::SingleDataField::hasFullByteOffset')
    ctx.touch(fn)
    bad = []

    def call(after, prevbox, f, n):
        m = tinyeval.Machine(fn, {'m_length': 1, 'm_dataType': 1}, [1 if after else 0, tinyeval.Ref(prevbox, 0)])
        m.methods = {'ebusd::DataType::isNumeric': lambda: 1, 'ebusd::NumberDataType::getFirstBit': lambda: f,
                     'ebusd::DataType::getBitCount': lambda: n, 'ebusd::NumberDataType::getBitCount': lambda: n}
        return bool(m.call())
    try:
        pairs = 0
        for fa in range(8):
            for na in range(1, 8 - fa + 1):
                if na == 8:
                    continue
                for fb_ in range(8):
                    for nb in range(1, 8 - fb_ + 1):
                        if nb == 8:
                            continue
                        prev = [-1]
                        prevfull = True
                        offset = 0
                        offs = []
                        for f, n in ((fa, na), (fb_, nb)):
                            if not prevfull and not call(False, prev, f, n):
                                offset -= 1
                            offs.append(offset)
                            offset += 1
                            prevfull = call(True, prev, f, n)
                        pairs += 1
                        shared = offs[0] == offs[1]
                        if fb_ == fa and shared and len(bad) < 4:
                            bad.append('fields at bits %d..%d and %d..%d are put into the same byte' % (fa, fa + na - 1, fb_, fb_ + nb - 1))
                        if fb_ > fa + na - 1 and fa + na < 8 and not shared and len(bad) < 4:
                            bad.append('a field at bits %d..%d behind one at %d..%d gets a new byte' % (fb_, fb_ + nb - 1, fa, fa + na - 1))
    except (tinyeval.Unknown, tinyeval.OutOfBounds) as e:
        raise AnalysisBroken('C10.R13: hasFullByteOffset not evaluable (%s)' % e)
    ctx.ob('C10.R13', fn, fn.body, not bad, 'byte sharing of two successive bit fields',
           '%d pairs of sub-byte fields evaluated: %s%s' % (pairs, not bad, '' if not bad else ' - ' + '; '.join(bad)))


def run(ctx):
    r13(ctx)
    import rules.C12 as _c12b
    ctx.borrow(_c12b.r2, {'C12.R2': 'C10.R12'},
               'a field owns the bits its definition says: the derived type object a definition gets from the cache must have been built for the same width and divisor, so the cache key carries exactly the values the object is constructed with')
    r11(ctx)
    r1(ctx)
    r2(ctx)
    import rules.C12 as c12
    c12.r3(ctx, 'C10.R3')
    c12.r5(ctx, 'C10.R4')
    r5(ctx)
    import rules.C09 as c09
    c09.symbol_layout_rule(ctx, 'C10.R6')
    ctx.borrow(c09.r8, {'C09.R8': 'C10.R7'},
               'a field that is put into a part the telegram does not have is neither sent nor read back')
    import rules.common as _common
    ctx.rule('C10.R8', 'arguments keep their roles across calls: at every call of a repository function in the field/data type sources (offset and length of a field must not be exchanged on the way to its reader or writer) whose arguments are named like parameters of the callee, no two of them are passed crosswise (argument i named like parameter j and argument j like parameter i)', minimum=15)
    _common.swapped_args_rule(ctx, 'C10.R8', ('src/lib/ebus/data',), 15)
    ctx.borrow(c09.r10, {'C09.R10': 'C10.R9'},
               'decoding a field alone must select the same field as the whole-message decode: the index handed to the slave '
               'fields is relative to the slave part and counts only fields of the requested name')
    r10(ctx)
