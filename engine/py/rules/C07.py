"""C07 - writes are range-safe.

C07.R1 (core)  no parsed wide value is narrowed before a range check on the wide value
C07.R2         every writeRawValue call on the encode path is preceded by a range / membership check of its value
C07.R3         errno discipline (shared with C12.R1)
"""
import facts
from facts import AnalysisBroken, Explorer
import rules.common as common

SCOPE = ('src/lib/ebus/datatype.cpp', 'src/lib/ebus/data.cpp', 'src/lib/ebus/symbol.cpp',
         'src/lib/ebus/contrib/tem.cpp', 'src/lib/ebus/datatype.h', 'src/lib/ebus/data.h', 'src/lib/ebus/symbol.h',
         'src/lib/ebus/contrib/tem.h')
STRTO = {'strtol': True, 'strtoll': True, 'strtoul': False, 'strtoull': False, 'strtod': True, 'strtof': True,
         'strtold': True}   # name -> result may be negative


_seen_inline = {}


def in_scope(fn):
    """functions of the data type / field modules, the inline ones of their headers once (they are parsed in every unit)"""
    if fn.relfile not in SCOPE:
        return False
    if fn.relfile.endswith('.h'):
        first = _seen_inline.setdefault((fn.name, fn.sig), str(fn.tu))
        return first == str(fn.tu)
    return True


def r1(ctx):
    ctx.rule('C07.R1', 'a value obtained from strtol/strtoul/strtod (or a floating parameter of a data type method) must '
             'not be converted to a narrower integer type unless, on every feasible path from its last definition, '
             'guards bound the WIDE value from above (and from below if it can be negative) by bounds that fit the '
             'target; a cast applied directly to the parse result can never satisfy this', minimum=9, star=True)
    fb = ctx.fb
    nsrc = 0
    for fn in fb.functions:
        if not in_scope(fn) or not fn.blocks:
            continue
        # --- sources
        src_calls = [c for c in fn.calls(*STRTO.keys(), suffix=False)]
        fparams = []
        if fn.cls and ('ebusd::DataType' in fb.bases(fn.cls) or fn.cls == 'ebusd::DataType'):
            fparams = [p for p in fn.params if p.get('fl')]
        if not src_calls and not fparams:
            continue
        ctx.touch(fn)
        nsrc += len(src_calls) + len(fparams)
        # wide variables: decl -> (may be negative, is floating)
        wide = {}
        for p in fparams:
            wide[p['decl']] = {'neg': True, 'fl': True, 'name': p['name']}
        direct = set(src_calls)

        def is_wide_type(v):
            return bool(v.get('fl')) or (v.get('w', 0) > 32)

        changed = True
        while changed:
            changed = False
            for nid, d, rhs, op, lhs in fn.assignments():
                if d is None or rhs is None or d in wide:
                    continue
                # declared type of the target
                tv = None
                if op == 'init':
                    for dd in fn.nodes[nid].get('decls', []):
                        if dd['decl'] == d:
                            tv = dd
                elif lhs is not None:
                    tv = fn.nodes[fn.strip(lhs)]
                if tv is None or not is_wide_type(tv):
                    continue
                neg = None
                for x in fn.walk(rhs):
                    xv = fn.nodes[x]
                    if x in direct:
                        nm = xv['callee'].split('::')[-1]
                        neg = STRTO[nm] or bool(neg)
                    elif xv['k'] == 'DeclRefExpr' and xv.get('decl') in wide:
                        neg = wide[xv['decl']]['neg'] or bool(neg)
                if neg is None:
                    continue
                wide[d] = {'neg': neg, 'fl': bool(tv.get('fl')), 'name': tv.get('name', '?')}
                changed = True
        # --- sinks: narrowing conversions whose operand carries a wide value
        for nid, v in sorted(fn.nodes.items()):
            ck = v.get('ck')
            if ck == 'FloatingToIntegral':
                pass
            elif ck == 'IntegralCast' and v.get('sw', 0) > v.get('w', 99):
                pass
            else:
                continue
            operand = v['ch'][0]
            carried = []
            direct_hit = None
            for x in fn.walk(operand):
                xv = fn.nodes[x]
                if x in direct:
                    direct_hit = x
                elif xv['k'] == 'DeclRefExpr' and xv.get('decl') in wide and xv['decl'] not in carried:
                    carried.append(xv['decl'])
            if direct_hit is None and not carried:
                continue
            tgt_w = v.get('w', 32)
            construct = 'narrow %s -> %s of %s' % (v.get('st'), v.get('t'), fn.key(operand))
            if direct_hit is not None:
                ctx.ob('C07.R1', fn, nid, False, construct,
                       'conversion applied directly to the result of %s: no range check on the wide value is possible' %
                       fn.nodes[direct_hit]['callee'])
                continue
            ok, why, wit = True, '', None
            for cd in carried:
                ok1, why1, wit1 = bounded_on_all_paths(fn, cd, wide, nid, tgt_w, bool(v.get('sg')) and wide[cd]['fl'])
                if not ok1:
                    ok, why, wit = False, why1, wit1
                    break
                why = why1
            ctx.ob('C07.R1', fn, nid, ok, construct, why, witness=wit)
    if nsrc < 9:
        raise AnalysisBroken('C07.R1: only %d wide sources found (confirmed: 9)' % nsrc)


def bound_fits(fn, a, decl, tgt_w, ivenv, tgt_signed=False):
    """does comparison atom a = ('cmp', l, op, r) bound variable decl? returns 'upper'/'lower'/None"""
    l, op, r = a[1], a[2], a[3]
    if isinstance(r, tuple) or isinstance(l, tuple):
        return None
    ld, rd = fn.ref_decl(l), fn.ref_decl(r)
    if ld == decl and rd != decl:
        var_left, other = True, r
    elif rd == decl and ld != decl:
        var_left, other = False, l
        op = facts.CMP_MIRROR[op]
    else:
        return None
    iv = common.interval(fn, other, ivenv)
    if iv is None:
        return None
    lo, hi = iv
    if op in ('<', '<=', '=='):
        # a floating value converted to a signed integer type must stay below 2^(w-1) (the conversion is undefined
        # otherwise); integer-to-integer narrowing keeps the low bits, so the full unsigned range is accepted there
        top = 2 ** (tgt_w - 1) if tgt_signed else 2 ** tgt_w
        lim = top if op == '<' else top - 1
        if hi <= lim:
            if op == '==' and lo >= -(2 ** (tgt_w - 1)):
                return 'both'
            return 'upper'
    if op in ('>', '>='):
        lim = -(2 ** (tgt_w - 1)) if op == '>=' else -(2 ** (tgt_w - 1)) - 1
        if lo >= lim:
            return 'lower'
    return None


def bounded_on_all_paths(fn, decl, wide, sink, tgt_w, tgt_signed=False):
    """explore all feasible paths from the function entry to the sink; state = frozenset of (wide decl, side)
    bounds established so far. A write to a wide variable resets its bounds, except a pure conversion copy
    `W2 = (T)W1`, which inherits the bounds of W1 (conversions are monotone)."""
    info = wide[decl]
    sink_pos = fn.pos(sink)
    if sink_pos is None:
        raise AnalysisBroken('C07.R1: sink not in CFG of %s' % fn.name)
    need = {(decl, 'upper')} | ({(decl, 'lower')} if info['neg'] else set())
    name = info['name']
    ivenv = common.IntervalEnv(fn)
    bad = []
    okcount = [0]
    sink_elem = fn.blocks[sink_pos[0]].elems[sink_pos[1]] if sink_pos[1] < len(fn.blocks[sink_pos[0]].elems) else None

    def pure_copy_of(rhs):
        r = fn.strip(rhs, casts=True)
        rv = fn.nodes.get(r, {})
        if rv.get('k') == 'DeclRefExpr' and rv.get('decl') in wide:
            return rv['decl']
        return None

    def on_elem(user, e, path):
        v = fn.nodes[e]
        k = v['k']
        written = []   # (decl, rhs)
        if k in ('BinaryOperator', 'CompoundAssignOperator') and v.get('op', '').endswith('=') and \
                v['op'] not in ('==', '!=', '<=', '>='):
            d = fn.ref_decl(v['lhs'])
            if d in wide:
                written.append((d, v['rhs'] if v['op'] == '=' else None))
        elif k == 'DeclStmt':
            for dd in v.get('decls', []):
                if dd['decl'] in wide:
                    written.append((dd['decl'], dd.get('init')))
        elif k == 'UnaryOperator' and v.get('op') in ('++', '--'):
            d = fn.ref_decl(v['ch'][0])
            if d in wide:
                written.append((d, None))
        for d, rhs in written:
            st = set(x for x in user if x[0] != d)
            src = pure_copy_of(rhs) if rhs is not None else None
            if src is not None and src != d:
                for (dd, side) in user:
                    if dd == src:
                        st.add((d, side))
            user = frozenset(st)
        if e == sink_elem:
            if need <= set(user):
                okcount[0] += 1
            else:
                bad.append((user, path))
            return None
        return user

    def on_edge(user, b, j, dnf):
        got = None
        for conj in dnf:
            here = set()
            for a in conj:
                if a[0] != 'cmp':
                    continue
                for wd in wide:
                    r = bound_fits(fn, a, wd, tgt_w, ivenv, tgt_signed)
                    if r == 'both':
                        here |= {(wd, 'upper'), (wd, 'lower')}
                    elif r:
                        here.add((wd, r))
            got = here if got is None else (got & here)
        if got:
            return frozenset(set(user) | got)
        return user

    ex = Explorer(fn, on_elem=on_elem, on_edge=on_edge)
    ex.run(fn.entry, 0, frozenset())
    if not bad and okcount[0] == 0:
        return True, 'sink unreachable', None
    if bad:
        user, path = bad[0]
        missing = sorted(side for (d, side) in need - set(user))
        return False, 'wide value %s reaches the conversion without %s bound on %d feasible path class(es)' % (
            name, ' and '.join(missing), len(bad)), ex.describe_path(path)
    return True, 'bounded on both required sides on all %d feasible path class(es)' % okcount[0], None


def r2(ctx):
    ctx.rule('C07.R2', 'every NumberDataType::writeRawValue call in a writeSymbols implementation passes a value that '
             'is (a) checked by checkValueRange/parseInput with the OK edge dominating the call, (b) a key of the value '
             'list (loop over m_values or successful m_values.find), or (c) the type\'s replacement value', minimum=5)
    fb = ctx.fb
    for f, c in fb.call_sites('ebusd::NumberDataType::writeRawValue'):
        if not in_scope(f):
            continue
        v = f.nodes[c]
        arg = v['args'][0]
        ak = f.key(arg)
        atoms = f.atoms(c)
        keys = [(a[0], a[1]) for a in atoms]
        ok = False
        why = ''
        if 'getReplacement()' in ak or ak.endswith('m_replacement'):
            ok, why = True, 'replacement value'
        else:
            for k, p in keys:
                if ('checkValueRange(' in k or 'parseInput(' in k) and 'ret' not in k:
                    pass
            # (a) result variable of checkValueRange/parseInput compared with RESULT_OK
            ok_val = fb.enumerator('ebusd::result_e', 'RESULT_OK') if 'ebusd::result_e' in fb.enums else 0
            for nid, d, rhs, op, lhs in f.assignments():
                if rhs is None or d is None:
                    continue
                rk = f.key(rhs)
                if ('checkValueRange(' in rk or 'parseInput(' in rk) and (ak in rk or '&' + ak in rk):
                    name = d.split(':')[-1]
                    if ('(%s == #%d)' % (name, ok_val), True) in keys:
                        ok, why = True, 'dominated by %s == RESULT_OK' % rk
            if not ok:
                # (b) value list membership
                for k, p in keys:
                    if k == '(this.m_values.find(%s) == this.m_values.end())' % ak and p is False:
                        ok, why = True, 'dominated by successful m_values.find(%s)' % ak
                if not ok and ak.endswith('.first'):
                    # loop variable over this.m_values
                    for x in f.all('CXXForRangeStmt'):
                        xv = f.nodes[x]
                        if 'range' in xv and f.key(xv['range']).endswith('this.m_values') and c in set(f.walk(x)):
                            ok, why = True, 'iterates the value list itself'
        ctx.ob('C07.R2', f, c, ok, 'writeRawValue(%s)' % ak, why or 'no dominating range or membership check of the value')


NAN_EXCLUDERS = {'isfinite': True, 'std::isfinite': True, '__builtin_isfinite': True, 'isnormal': True,
                 'isnan': False, 'std::isnan': False, '__builtin_isnan': False}


def r4(ctx):
    ctx.rule('C07.R4', 'NaN never passes a range test: on every feasible path on which a floating value is range-tested by '
             'relational comparisons and the path then reaches acceptance (return RESULT_OK, or a conversion of that value to '
             'an integer), the value has been proven not-NaN on that path - by isfinite()/!isnan(), or by a relational '
             'comparison that evaluated true (all comparisons with NaN are false, so rejecting only on "x < lo" / "x > hi" '
             'lets NaN through)', minimum=4, star=True)
    fb = ctx.fb
    ok_val = 0
    ninst = 0
    for fn in fb.functions:
        if fn.relfile not in ('src/lib/ebus/datatype.cpp', 'src/lib/ebus/contrib/tem.cpp') or not fn.blocks:
            continue
        # floating variables (locals / params) of the function
        fvars = {}
        for p in fn.params:
            if p.get('fl'):
                fvars[p['decl']] = p['name']
        for nid, v in fn.nodes.items():
            if v['k'] == 'DeclStmt':
                for dd in v.get('decls', []):
                    if dd.get('fl'):
                        fvars[dd['decl']] = dd['name']
        # locals that are mere bounds (every definition is a computable constant expression such as
        # exp2(m_bitCount - 1)) are not external values
        ivenv = common.IntervalEnv(fn)
        for d in list(fvars):
            defs = [rhs for nid, dd, rhs, op, lhs in fn.assignments() if dd == d]
            if defs and all(r is not None and common.interval(fn, r, ivenv) is not None for r in defs):
                del fvars[d]
        if not fvars:
            continue
        # is any of them range-tested in a branch condition?
        tested_any = False
        for b in fn.blocks.values():
            if b.cond is None:
                continue
            for x in fn.walk(b.cond):
                xv = fn.nodes[x]
                if xv['k'] == 'BinaryOperator' and xv.get('op') in ('<', '>', '<=', '>='):
                    if fn.ref_decl(xv['lhs']) in fvars or fn.ref_decl(xv['rhs']) in fvars:
                        tested_any = True
        if not tested_any:
            continue
        ctx.touch(fn)
        # acceptance points: return of constant RESULT_OK, float->int conversions of a tracked variable
        accept = {}
        for r in fn.all('ReturnStmt'):
            rv = fn.nodes[r].get('val')
            if rv is not None and fn.val(rv) == ok_val and fn.nodes[fn.strip(rv)].get('rk') == 'enumerator':
                accept[r] = ('return RESULT_OK', None)
        for nid, v in fn.nodes.items():
            if v.get('ck') == 'FloatingToIntegral':
                for x in fn.walk(v['ch'][0]):
                    d = fn.nodes[x].get('decl')
                    if fn.nodes[x]['k'] == 'DeclRefExpr' and d in fvars:
                        accept[nid] = ('conversion of %s to %s' % (fvars[d], v.get('t')), d)
        if not accept:
            continue
        # map CFG elements to acceptance points
        at_elem = {}
        for a in accept:
            p = fn.pos(a)
            if p is None:
                continue
            blk = fn.blocks[p[0]]
            if p[1] < len(blk.elems):
                at_elem.setdefault(blk.elems[p[1]], []).append(a)
        results = {}

        def on_elem(user, e, path):
            tested, notnan = user
            v = fn.nodes[e]
            # writes reset both facts for the variable, pure copies inherit
            written = []
            if v['k'] in ('BinaryOperator', 'CompoundAssignOperator') and v.get('op', '').endswith('=') and \
                    v['op'] not in ('==', '!=', '<=', '>='):
                d = fn.ref_decl(v['lhs'])
                if d in fvars:
                    written.append((d, v['rhs'] if v['op'] == '=' else None))
            elif v['k'] == 'DeclStmt':
                for dd in v.get('decls', []):
                    if dd['decl'] in fvars:
                        written.append((dd['decl'], dd.get('init')))
            for d, rhs in written:
                tested = frozenset(x for x in tested if x != d)
                src = None
                if rhs is not None:
                    r = fn.nodes.get(fn.strip(rhs, casts=True), {})
                    if r.get('k') == 'DeclRefExpr' and r.get('decl') in fvars:
                        src = r['decl']
                if src is not None and src in notnan:
                    notnan = frozenset(set(notnan) | {d})
                    if src in tested:
                        tested = frozenset(set(tested) | {d})
                else:
                    notnan = frozenset(x for x in notnan if x != d)
            if e in at_elem:
                for a in at_elem[e]:
                    what, only = accept[a]
                    need = set(tested) if only is None else ({only} & set(tested))
                    missing = need - set(notnan)
                    if missing:
                        results.setdefault(a, {'bad': None, 'good': 0})
                        if results[a]['bad'] is None:
                            results[a]['bad'] = (sorted(fvars[m] for m in missing), path)
                    else:
                        results.setdefault(a, {'bad': None, 'good': 0})['good'] += 1
                if fn.nodes[e]['k'] == 'ReturnStmt':
                    return None
            return (tested, notnan)

        def on_edge(user, b, j, dnf):
            tested, notnan = user
            t_all = None
            n_all = None
            for conj in dnf:
                t_here, n_here = set(), set()
                for a in conj:
                    if a[0] == 'cmp' and a[2] in ('<', '>', '<=', '>='):
                        for side in (a[1], a[3]):
                            d = fn.ref_decl(side)
                            if d in fvars:
                                t_here.add(d)
                                if a[4]:
                                    n_here.add(d)
                    elif a[0] == 'b':
                        node = fn.nodes.get(fn.strip(a[3]), {})
                        cal = node.get('callee') or ''
                        if node.get('k') == 'CallExpr' and cal in NAN_EXCLUDERS and a[2] == NAN_EXCLUDERS[cal] and node.get('args'):
                            arg = fn.strip(node['args'][0], casts=True)
                            d = fn.nodes.get(arg, {}).get('decl')
                            if d in fvars:
                                n_here.add(d)
                t_all = t_here if t_all is None else (t_all | t_here)
                n_all = n_here if n_all is None else (n_all & n_here)
            return (frozenset(set(tested) | (t_all or set())), frozenset(set(notnan) | (n_all or set())))

        ex = Explorer(fn, on_elem=on_elem, on_edge=on_edge)
        ex.run(fn.entry, 0, (frozenset(), frozenset()))
        for a, r in sorted(results.items()):
            ninst += 1
            what = accept[a][0]
            if r['bad']:
                ctx.ob('C07.R4', fn, a, False, '%s in %s' % (what, fn.name.split('::')[-1]),
                       'NaN in %s passes every range comparison on this path and is accepted' % ', '.join(r['bad'][0]),
                       witness=ex.describe_path(r['bad'][1]))
            else:
                ctx.ob('C07.R4', fn, a, True, '%s in %s' % (what, fn.name.split('::')[-1]),
                       'range-tested floating values are proven not-NaN on all %d path class(es)' % r['good'])
    if ninst < 4:
        raise AnalysisBroken('C07.R4: only %d acceptance points behind floating range tests found' % ninst)


def r6(ctx):
    ctx.mark('minus-sign', 'C07.R6')
    ctx.rule('C07.R6', 'strtoul() skips leading white space and accepts a minus sign (the value is negated modulo 2^64), so a text '
             'parsed as unsigned is accepted only after a search for "-" in the whole input came back empty: the conversion '
             'of every strtoul result in the field input parsers is dominated by find(\'-\') == npos on the input string '
             '(a test of the first character alone lets " -18446744073709551615" through as 1); tokens that were split at '
             '"-" cannot contain one', minimum=2)
    fb = ctx.fb
    n = 0
    import re
    for fn in fb.functions:
        if not in_scope(fn) or not fn.blocks:
            continue
        calls = [c for c in fn.all('CallExpr') if fn.nodes[c].get('callee') in ('strtoul', 'strtoull')]
        if not calls:
            continue
        split_at_minus = any((fn.nodes[c].get('callee') or '').endswith('getline') and len(fn.nodes[c].get('args', [])) >= 3 and
                             fn.val(fn.nodes[c]['args'][2]) == 45 for c in fn.all('CallExpr'))
        for c in calls:
            # the local receiving the result and its conversion to the 32 bit value
            res = [d for nid, d, rhs, op, lhs in fn.assignments() if rhs is not None and fn.strip(rhs, casts=True) == c and d]
            if not res:
                continue
            rname = res[0].split(':')[-1]
            uses = [nid for nid, v in sorted(fn.nodes.items()) if v.get('ck') == 'IntegralCast' and v.get('sw', 0) > v.get('w', 99) and
                    any(fn.nodes[x].get('k') == 'DeclRefExpr' and fn.nodes[x].get('decl') == res[0] for x in fn.walk(nid))]
            for u in uses:
                n += 1
                ctx.touch(fn)
                if split_at_minus:
                    ctx.ob('C07.R6', fn, u, True, 'unsigned parse of %s in %s' % (rname, fn.name.split('::')[-1]),
                           'the token was split at "-" and cannot contain one', nontrivial=False)
                    continue
                atoms = set()
                for b in fn.blocks.values():
                    if b.cond is not None and len(b.succs) == 2:
                        for j in (0, 1):
                            for a in fn.norm_atom(fn.effective_cond(b.id), j == 0):
                                atoms.add(a[0])
                alts = [(k, True) for k in atoms if re.match(r'^\(\w+\.find(_first_of)?\(#45(,#0)?\) == #18446744073709551615\)$', k) or
                        re.match(r'^\((memchr|strchr)\(\w+,#45.*\) == #0\)$', k)]
                # nothing was consumed (end pointer == start): rejected as invalid number right afterwards
                endp = fn.outarg(fn.nodes[c]['callee'], 1)
                start = fn.key(fn.nodes[c]['args'][0])
                if endp:
                    alts += [('(%s == %s)' % (endp, start), True), ('(%s == %s)' % (start, endp), True)]
                ok = any('#45' in k for k, p in alts) and fn.needs_one_of(u, alts)
                ctx.ob('C07.R6', fn, u, ok, 'unsigned parse of %s in %s' % (rname, fn.name.split('::')[-1]),
                       'conversion reached only if no "-" occurs anywhere in the input: %s' % ok)
    if n < 2:
        raise AnalysisBroken('C07.R6: only %d conversions of strtoul results found' % n)


def r8(ctx):
    ctx.rule('C07.R8', 'a value list can only be written through its keys (C07.R2), so every key must lie in the range of the '
             'type: each construction of a ValueListDataField from a caller-supplied value map is preceded by a loop over '
             'that whole map that calls checkValueRange() on every key and leaves on a failure (checking only some entries '
             'is not enough: for signed types the valid raw values are two separate intervals)', minimum=3)
    fb = ctx.fb
    n = 0
    for fn in fb.functions:
        if fn.relfile != 'src/lib/ebus/data.cpp' or not fn.blocks:
            continue
        for x in fn.all('CXXNewExpr'):
            if 'ValueListDataField' not in fn.nodes[x].get('newt', ''):
                continue
            init = fn.nodes[x].get('init')
            args = fn.nodes.get(init, {}).get('args', []) if init is not None else []
            if len(args) < 2:
                continue
            vk = fn.key(args[-1])
            base = vk.lstrip('*')
            is_param = any(p.get('name') == base for p in fn.params)
            if not is_param:
                continue        # the own, already checked list (m_values) or a built-in table
            n += 1
            ctx.touch(fn)
            ok = False
            for l in fn.all('CXXForRangeStmt'):
                lv = fn.nodes[l]
                if fn.key(lv.get('range', -1)) not in (vk, base, '*' + base):
                    continue
                var = (lv.get('loopvar') or '').split(':')[-1]
                chk = [c for c in fn.walk(l) if fn.nodes[c]['k'] == 'CXXMemberCallExpr' and
                       (fn.nodes[c].get('callee') or '').endswith('::checkValueRange') and fn.nodes[c].get('args') and
                       fn.key(fn.nodes[c]['args'][0]) == var + '.first']
                rets = [r for r in fn.walk(l) if fn.nodes[r]['k'] == 'ReturnStmt']
                inside = x in set(fn.walk(l))
                # the loop lies before the construction and every path to the construction passes its head
                if chk and rets and not inside and fn.line_of(l) < fn.line_of(x) and \
                        fn.block_of(x) in fn.reach([fn.block_of(chk[0])]):
                    ok = True
            ctx.ob('C07.R8', fn, x, ok, 'new ValueListDataField(%s) in %s' % (vk, fn.name.split('::')[-2] + '::' + fn.name.split('::')[-1]),
                   'every key of %s is range-checked in a loop before: %s' % (base, ok))
    if n < 3:
        raise AnalysisBroken('C07.R8: only %d value list constructions from caller-supplied maps found' % n)


def r9(ctx):
    ctx.rule('C07.R9', 'the range column of a field is given in the unit of the field value: in DataField::create the type that '
             'parses the range texts carries the divisor of the field - the derive(divisor, ...) call is evaluated before '
             'every parseInput() of a range text, and the condition it stands under is true for every divisor other than '
             '0 and 1 (negative = reciprocal divisors included; evaluated for -1000..1000 on the typed AST)', minimum=2)
    import tinyeval
    fb = ctx.fb
    fn = fb.fn('ebusd::DataField::create')
    ctx.touch(fn)
    parses = fn.calls('ebusd::NumberDataType::parseInput', suffix=False)
    ders = [c for c in fn.calls('ebusd::NumberDataType::derive', suffix=False) if len(fn.nodes[c].get('args', [])) == 3 and
            fn.ref_decl(fn.nodes[c]['args'][0])]
    if not parses or len(ders) != 1:
        raise AnalysisBroken('C07.R9: range parsing (%d parseInput) or the derive(divisor) call (%d) not found' % (len(parses), len(ders)))
    der = ders[0]
    dv = fn.ref_decl(fn.nodes[der]['args'][0])
    conds = []
    p = fn.parent(der)
    while p is not None:
        v = fn.nodes[p]
        if v['k'] == 'IfStmt' and any(fn.nodes[x].get('decl') == dv for x in fn.walk(v['cond'])):
            inthen = v.get('then') is not None and der in set(fn.walk(v['then']))
            conds.append((p, v['cond'], inthen))
        p = fn.parent(p)
    bad = []
    for val in (-1000, -100, -10, -2, -1, 0, 1, 2, 10, 100, 1000):
        applied = True
        for ifs, cond, inthen in conds:
            m = tinyeval.Machine(fn, {}, [])
            m.locals[dv] = val
            try:
                c = bool(m.rv(cond))
            except tinyeval.Unknown as e:
                raise AnalysisBroken('C07.R9: condition of the divisor derivation not evaluable (%s)' % e)
            applied = applied and (c == inthen)
        if applied != (val not in (0, 1)) and val not in (0, 1):
            bad.append(val)
    ctx.ob('C07.R9', fn, der, not bad, 'divisor applied to the range type', 'divisors left out: %s' % bad if bad else
           'applied for every divisor other than 0 and 1')
    cut = [fn.block_of(der)]
    if conds:
        cut = [fn.block_of(conds[-1][1])]
    early = fn.reach([fn.entry], cut_blocks=cut)
    for c in parses:
        ok = fn.block_of(c) not in early
        ctx.ob('C07.R9', fn, c, ok, 'range text parsed by the derived type', 'reached only behind the divisor derivation: %s' % ok)


def r10(ctx):
    ctx.rule('C07.R10', 'a parsed number keeps double precision until it becomes the raw integer: in the field input parsers a '
             'conversion double -> float is applied only to a value that is handed to the float encoders '
             '(floatToUint / floatToUint16, raw format IEEE 754 or DPT 9); anywhere else the 24 bit mantissa rounds 4-byte '
             'values several steps away and lets values beyond the configured maximum round down into it', minimum=1)
    fb = ctx.fb
    n = 0
    for fn in fb.functions:
        if not in_scope(fn) or not fn.blocks:
            continue
        if not (fn.name.endswith('::parseInput') or fn.name.endswith('::writeSymbols') or fn.name.endswith('::getRawValueFromFloat')):
            continue
        for x, v in sorted(fn.nodes.items()):
            narrowing = v.get('ck') == 'FloatingCast' and (v.get('t') or '').replace('const ', '') == 'float' and \
                (v.get('st') or '').replace('const ', '') in ('double', 'long double')
            if not narrowing:
                continue
            n += 1
            ctx.touch(fn)
            feeds = any(fn.nodes[a].get('k') == 'CallExpr' and (fn.nodes[a].get('callee') or '').split('::')[-1] in ('floatToUint', 'floatToUint16')
                        for a in fn.ancestors(x))
            ctx.ob('C07.R10', fn, x, feeds, 'double -> float in %s' % fn.name.split('::')[-1],
                   'value goes to a float encoder: %s' % feeds)
    if n < 1:
        raise AnalysisBroken('C07.R10: no float conversion found in the field input parsers')


def r11(ctx):
    ctx.rule('C07.R11', 'a value is accepted only if checkValueRange() says RESULT_OK: the function also reports a value that is not '
             'finite with a positive code (RESULT_EMPTY), so every test of its result is a comparison for (in)equality with '
             'RESULT_OK - an order comparison (ret < RESULT_OK) lets NaN and infinity pass and puts the replacement value on '
             'the bus', minimum=8)
    import re
    fb = ctx.fb
    cvr = fb.fn('ebusd::NumberDataType::checkValueRange')
    ctx.touch(cvr)
    rets = set(cvr.val(cvr.nodes[r]['val']) for r in cvr.all('ReturnStmt') if cvr.nodes[r].get('val') is not None)
    positive = sorted(v for v in rets if v is not None and v > 0)
    n = 0
    seen = set()
    for fn in fb.functions:
        if not fn.relfile.startswith('src/lib/ebus/') or not fn.blocks or (fn.name, fn.sig) in seen:
            continue
        seen.add((fn.name, fn.sig))
        for c in fn.calls('ebusd::NumberDataType::checkValueRange', suffix=False):
            res = [d for nid, d, rhs, op, lhs in fn.assignments() if rhs is not None and fn.strip(rhs, casts=True) == c and d]
            nm = res[0].split(':')[-1] if res else None
            tests = set()
            for b in fn.blocks.values():
                if b.cond is None or len(b.succs) != 2:
                    continue
                for conj in facts.implied(fn, fn.effective_cond(b.id), True):
                    for a in conj:
                        k, p = facts.atom_key(fn, a)
                        if (nm and re.search(r'(?<![\w.])%s(?![\w(])' % re.escape(nm), k)) or (not nm and 'checkValueRange(' in k and k.startswith('(this.checkValueRange') and fn.key(c) in k):
                            tests.add(k)
            n += 1
            ctx.touch(fn)
            order = sorted(k for k in tests if re.search(r' (<|<=) #-?\d+\)$', k))
            ok = bool(tests) and not order or not positive
            ctx.ob('C07.R11', fn, c, ok, 'result of checkValueRange in %s' % fn.name.split('::')[-1],
                   'tested by %s; positive codes it can return: %s' % (sorted(tests)[:4], positive))
    if n < 8:
        raise AnalysisBroken('C07.R11: only %d calls of checkValueRange found' % n)


def r12(ctx):
    ctx.rule('C07.R12', 'checkValueRange accepts exactly the raw values inside the configured range: its body, evaluated from the '
             'typed AST for an 8 bit integer type (all 256 raw values; signed with ranges below zero, around zero, above zero, '
             'full and single-valued; unsigned likewise), returns RESULT_OK exactly for min <= value <= max in the numeric '
             'order of the type (two\'s complement for signed types) - whatever form the comparison takes', minimum=2)
    import tinyeval
    fb = ctx.fb
    fn = fb.fn('ebusd::NumberDataType::checkValueRange')
    ctx.touch(fn)
    byname = {}
    for f in fb.functions:
        if f.blocks and f.cls in ('ebusd::NumberDataType', 'ebusd::DataType'):
            byname.setdefault((f.name, f.sig), f)
    SIG = None
    for f in fb.functions:
        if f.name == 'ebusd::NumberDataType::checkValueRange':
            for c in f.all('CXXMemberCallExpr'):
                if (f.nodes[c].get('callee') or '').endswith('::hasFlag') and f.val(f.nodes[c]['args'][0]) is not None:
                    if SIG is None:
                        SIG = f.val(f.nodes[c]['args'][0])     # the first flag tested decides signed / unsigned
            break
    if SIG is None:
        raise AnalysisBroken('C07.R12: signedness flag of checkValueRange not found')

    def resolve(name, sig):
        return byname.get((name, sig))
    for signed, ranges in ((True, [(-30, -10), (-5, 5), (1, 100), (-128, 127), (0, 0), (-1, -1), (10, 20), (-128, -128), (127, 127)]),
                           (False, [(0, 255), (10, 20), (0, 0), (200, 250), (255, 255)])):
        bad = []
        try:
            for lo, hi in ranges:
                for raw in range(256):
                    num = raw - 256 if signed and raw >= 128 else raw
                    fields = {'m_flags': SIG if signed else 0, 'm_bitCount': 8, 'm_minValue': lo & 0xff, 'm_maxValue': hi & 0xff}
                    got = tinyeval.run(fn, fields, [raw, 0], resolve=resolve)
                    want_ok = lo <= num <= hi
                    if (got == 0) != want_ok and len(bad) < 4:
                        bad.append('range %d..%d: %d is %s' % (lo, hi, num, 'accepted' if got == 0 else 'rejected'))
        except tinyeval.Unknown as e:
            raise AnalysisBroken('C07.R12: checkValueRange uses a construct the evaluation does not model (%s)' % e)
        ctx.ob('C07.R12', fn, fn.body, not bad, '%s 8 bit range check' % ('signed' if signed else 'unsigned'),
               '; '.join(bad) or 'accepts exactly min..max for %d ranges x 256 values' % len(ranges))


def r14(ctx):
    ctx.rule('C07.R14', 'not-a-number and infinity never pass the range check: in NumberDataType::checkValueRange every return that is '
             'reached with the decoded float known to be not finite (the false side of isfinite()) returns a result other than '
             'RESULT_OK - parseInput and getRawValueFromFloat rely on that result, nothing else stops "nan" from being written '
             'as the replacement pattern', minimum=1)
    fb = ctx.fb
    fn = fb.fn('ebusd::NumberDataType::checkValueRange')
    ctx.touch(fn)
    n = 0
    for r in fn.all('ReturnStmt'):
        atoms = [(a[0], a[1]) for a in fn.atoms(r)]
        if not any('isfinite(' in k and not p_ for k, p_ in atoms):
            continue
        n += 1
        v = fn.val(fn.nodes[r].get('val'))
        ok = v is not None and v != 0
        ctx.ob('C07.R14', fn, r, ok, 'return for a value that is not finite', 'an error result: %s (%s)' % (ok, fn.key(fn.nodes[r]['val'])))
    if n < 1:
        raise AnalysisBroken('C07.R14: no return under !isfinite() found in checkValueRange')


def run(ctx):
    r14(ctx)
    import rules.common as _cmp
    ctx.rule('C07.R13', 'a parsed integer is scaled only after it was bounded: in the data type and field sources the 64 bit result of strtol / strtoul is never multiplied or shifted in integer arithmetic unless constants bound it on the way (the number types scale in double, which cannot wrap) - the unchecked product of a 17 to 19 digit text with the divisor wraps around and lands inside the range of the field, so that an absurd input is written as a small value (checked against a positive example on every run)', minimum=2)
    _cmp.parsed_scale_rule(ctx, 'C07.R13', lambda f: f.relfile.startswith(('src/lib/ebus/datatype.', 'src/lib/ebus/data.')), 2)
    r12(ctx)
    r11(ctx)
    r10(ctx)
    r9(ctx)
    r8(ctx)
    r6(ctx)
    r1(ctx)
    r2(ctx)
    r4(ctx)
    import rules.C12 as c12
    c12.errno_rule(ctx, 'C07.R3')
    import rules.C12 as c12
    ctx.borrow(c12.r2, {'C12.R2': 'C07.R5'},
               'a field is range-checked against the minimum/maximum of the type object it got from derive(); a cached '
               'object built for another range lets values outside the field\'s own range pass')
    import rules.C06 as c06
    c06.boundary_rule(ctx, 'C07.R7')
