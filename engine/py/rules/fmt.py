"""format-string rule shared by C18.R1 and C20.R1"""
from facts import AnalysisBroken

# allow-list: (function, normalised format expression) -> reason.  One named site each.
ALLOW = {}


def wrapper_table(fb):
    """repo printf-style wrappers: variadic functions (format = last named parameter) and their va_list
    back ends (format = the const char* parameter directly before the va_list)"""
    wrappers = {}
    for f in fb.functions:
        if f.d.get('variadic') and f.params and 'char' in f.params[-1].get('t', ''):
            wrappers[f.sig] = len(f.params) - 1
        else:
            for i, p in enumerate(f.params):
                if 'va_list' in p.get('t', '') and i > 0 and 'char' in f.params[i - 1].get('t', ''):
                    wrappers[f.sig] = i - 1
    return wrappers


def format_sites(fb, file_filter=None):
    """yield (fn, call node, callee, format arg node, family)"""
    # repo variadic wrappers: last named parameter is the format
    wrappers = wrapper_table(fb)
    for f in fb.functions:
        if file_filter and not file_filter(f):
            continue
        for nid, v in sorted(f.nodes.items()):
            if v['k'] not in ('CallExpr', 'CXXMemberCallExpr'):
                continue
            cal = v.get('callee') or ''
            if cal.startswith('__builtin_va') or not v.get('args'):
                continue
            if v.get('fmt'):
                idx = v['fmt']['idx'] - 1
                if v['k'] == 'CXXMemberCallExpr':
                    idx -= 1
                if 0 <= idx < len(v['args']):
                    yield f, nid, cal, v['args'][idx], v['fmt']['kind']
            elif v.get('repo') and v.get('sig') in wrappers:
                idx = wrappers[v['sig']]
                if idx < len(v['args']):
                    yield f, nid, cal, v['args'][idx], 'printf-wrapper'


def literal_format(f, nid, depth=0):
    """is the expression a string literal, or a ?: / parenthesised combination of literals"""
    s = f.strip(nid, casts=True)
    v = f.nodes.get(s, {})
    k = v.get('k')
    if k == 'StringLiteral':
        return True
    if k == 'ConditionalOperator' and depth < 4:
        return literal_format(f, v['then'], depth + 1) and literal_format(f, v['else'], depth + 1)
    if k == 'PredefinedExpr':
        return True
    return False


def forwards_own_format(f, nid):
    """a variadic wrapper passing its own format parameter on to a v*printf function"""
    s = f.strip(nid, casts=True)
    v = f.nodes.get(s, {})
    if v.get('k') == 'DeclRefExpr' and v.get('rk') == 'param' and f.d.get('variadic') and f.params and \
            v.get('decl') == f.params[-1]['decl']:
        return True
    if v.get('k') == 'DeclRefExpr' and v.get('rk') == 'param':
        for i, p in enumerate(f.params):
            if 'va_list' in p.get('t', '') and i > 0 and f.params[i - 1]['decl'] == v.get('decl'):
                return True
    return False


def _callers_pass_safe(fb, f, pidx, depth, seen):
    """every call site of f (or of a method f overrides) passes a safe string for parameter pidx"""
    sigs = {f.sig}
    for o in f.d.get('overrides', []):
        sigs.add(o)
    # transitive bases
    changed = True
    while changed:
        changed = False
        for c in fb.classes.values():
            for m in c.get('methods', []):
                if m['sig'] in sigs:
                    for o in m.get('overrides', []):
                        if o not in sigs:
                            sigs.add(o)
                            changed = True
    n = 0
    for g in fb.functions:
        for nid, v in g.nodes.items():
            if v.get('sig') in sigs and v['k'] in ('CallExpr', 'CXXMemberCallExpr') and v.get('args') is not None:
                if pidx >= len(v['args']):
                    return False, 'call site %s omits the argument' % g.loc(nid)
                ok, why = percent_free(fb, g, v['args'][pidx], depth + 1, seen)
                if not ok:
                    return False, 'caller %s passes %s (%s)' % (g.loc(nid), g.text(v['args'][pidx])[:60], why)
                n += 1
    if n == 0:
        return False, 'no call site found'
    return True, 'all %d call sites pass percent-free text' % n


def _stream_insertions(f, name):
    """(argument node) of every `name << x` / name.str(x) in f"""
    out = []
    for c in f.all('CXXOperatorCallExpr'):
        cv = f.nodes[c]
        if cv.get('op') != '<<' or len(cv.get('args', [])) != 2:
            continue
        r = cv['args'][0]
        while True:
            rv = f.nodes[f.strip(r)]
            if rv['k'] == 'CXXOperatorCallExpr' and rv.get('op') == '<<':
                r = rv['args'][0]
            else:
                break
        if f.key(r) == name:
            out.append(cv['args'][1])
    for c in f.all('CXXMemberCallExpr'):
        cv = f.nodes[c]
        if (cv.get('callee') or '').endswith('::str') and cv.get('args') and 'obj' in cv and f.key(cv['obj']) == name:
            out.append(cv['args'][0])
    return out


def percent_free(fb, f, nid, depth=0, seen=None):
    """conservative proof that the text denoted by nid cannot contain a '%' character (so it is harmless as a
    printf format): literals without '%', numbers, and strings/streams built only from such parts"""
    if seen is None:
        seen = set()
    if depth > 14:
        return False, 'provenance too deep'
    s = f.strip(nid, casts=True)
    v = f.nodes.get(s, {})
    k = v.get('k')
    if k == 'StringLiteral':
        return ('%' not in v.get('str', '%')), 'literal'
    if k in ('IntegerLiteral', 'FloatingLiteral', 'CXXBoolLiteralExpr', 'CXXNullPtrLiteralExpr', 'GNUNullExpr'):
        return True, 'number'
    if k == 'CharacterLiteral':
        return v.get('v') != 37, 'char'
    if (v.get('w') or v.get('fl')) and not v.get('ptr') and 'char' not in (v.get('t') or ''):
        return True, 'arithmetic value'
    if v.get('w') == 8 and 'v' in v:
        return v['v'] != 37, 'char constant'
    if k == 'ConditionalOperator':
        a = percent_free(fb, f, v['then'], depth + 1, seen)
        b = percent_free(fb, f, v['else'], depth + 1, seen)
        return (a[0] and b[0]), a[1] if not a[0] else b[1]
    if k == 'DeclRefExpr' and v.get('rk') == 'function':
        return True, 'manipulator'
    if k in ('CXXMemberCallExpr',):
        cal = v.get('callee') or ''
        base = cal.split('::')[-1]
        if base in ('c_str', 'str', 'data') and 'obj' in v and not v.get('args'):
            return percent_free(fb, f, v['obj'], depth + 1, seen)
        if base in ('substr',) and 'obj' in v:
            return percent_free(fb, f, v['obj'], depth + 1, seen)
    if k in ('CallExpr', 'CXXMemberCallExpr') and v.get('repo'):
        # repository function returning text: every return value must be percent-free
        sig = v.get('sig')
        cands = [g for g in fb.functions if g.sig == sig]
        m = (v.get('callee') or '').split('::')[-1]
        if v.get('virt') and v.get('cls'):
            for d in fb.derived(v['cls']):
                cands += [g for g in fb.functions if g.name == d + '::' + m]
        if not cands:
            return False, 'callee %s has no visible definition' % v.get('callee')
        for g in cands:
            if (g.sig, 'ret') in seen:
                continue
            seen.add((g.sig, 'ret'))
            for r in g.all('ReturnStmt'):
                rv = g.nodes[r]
                if 'val' not in rv:
                    continue
                ok, why = percent_free(fb, g, rv['val'], depth + 1, seen)
                if not ok:
                    return False, '%s returns %s' % (g.name, g.text(rv['val'])[:50])
        return True, 'all returns of %s are percent-free' % v.get('callee')
    if k in ('CallExpr', 'CXXOperatorCallExpr') and (v.get('callee') or '').endswith('operator+') and v.get('args'):
        for a in v['args']:
            ok, why = percent_free(fb, f, a, depth + 1, seen)
            if not ok:
                return False, why
        return True, 'concatenation'
    if k in ('CXXConstructExpr', 'CXXTemporaryObjectExpr') and '_Set' in (v.get('t') or '') and v.get('args'):
        return percent_free(fb, f, v['args'][0], depth + 1, seen)
    if k == 'CallExpr' and (v.get('callee') or '') in ('std::setw', 'std::setprecision', 'std::setbase',
                                                       'std::resetiosflags', 'std::setiosflags'):
        return True, 'manipulator'
    if k == 'CallExpr' and (v.get('callee') or '') == 'std::setfill' and v.get('args'):
        return (f.val(v['args'][0]) not in (None, 37)), 'fill character'
    if k in ('CXXConstructExpr', 'CXXTemporaryObjectExpr') and 'basic_string' in (v.get('callee') or ''):
        if not v.get('args'):
            return True, 'empty string'
        return percent_free(fb, f, v['args'][0], depth + 1, seen)
    if k in ('CXXFunctionalCastExpr',):
        return percent_free(fb, f, v['ch'][0], depth + 1, seen)
    if k == 'DeclRefExpr' and v.get('rk') == 'param':
        idx = None
        for i, p in enumerate(f.params):
            if p['decl'] == v.get('decl'):
                idx = i
        if idx is None:
            return False, 'unknown parameter'
        if (f.sig, idx) in seen:
            return True, 'recursion'
        seen.add((f.sig, idx))
        # the parameter must not be reassigned
        for nid2, d, rhs, op, lhs in f.assignments():
            if d == v.get('decl'):
                return False, 'parameter reassigned'
        return _callers_pass_safe(fb, f, idx, depth, seen)
    if k == 'DeclRefExpr' and v.get('rk') == 'local':
        t = v.get('t') or ''
        name = v.get('name')
        # a local whose address escapes (or that is handed to a callee by reference) may be filled elsewhere
        for x, xv in f.nodes.items():
            if xv['k'] == 'UnaryOperator' and xv.get('op') == '&' and f.ref_decl(xv['ch'][0]) == v.get('decl'):
                return False, 'local %s is filled through its address by a callee' % name
            if xv['k'] in ('CallExpr', 'CXXMemberCallExpr', 'CXXConstructExpr') and xv.get('args'):
                sig = xv.get('sig') or ''
                try:
                    ptypes = sig[sig.index('(') + 1:sig.rindex(')')].split(',')
                except ValueError:
                    ptypes = []
                for i, a in enumerate(xv['args']):
                    if f.ref_decl(a) == v.get('decl') and i < len(ptypes) and ptypes[i].strip().endswith('&') and \
                            not ptypes[i].strip().startswith('const'):
                        return False, 'local %s is passed by non-const reference to %s' % (name, xv.get('callee'))
        if 'stringstream' in t or 'ostream' in t:
            ins = _stream_insertions(f, name)
            for a in ins:
                ok, why = percent_free(fb, f, a, depth + 1, seen)
                if not ok:
                    return False, 'stream %s receives %s (%s)' % (name, f.text(a)[:50], why)
            return True, 'stream built from percent-free parts'
        defs = [(rhs, op) for nid2, d, rhs, op, lhs in f.assignments() if d == v.get('decl')]
        if not defs:
            return False, 'local %s has no visible definition' % name
        for rhs, op in defs:
            if rhs is None:
                return False, 'local %s modified' % name
            ok, why = percent_free(fb, f, rhs, depth + 1, seen)
            if not ok:
                return False, why
        return True, 'local built from percent-free parts'
    if k == 'MemberExpr' and v.get('this') and v.get('rk') == 'field':
        name = v.get('name')
        if ('field', f.cls, name) in seen:
            return True, 'recursion'
        seen.add(('field', f.cls, name))
        n = 0
        for g in fb.functions:
            if g.cls != f.cls:
                continue
            for nid2, d, rhs, op, lhs in g.assignments():
                if d == 'this.' + name:
                    if rhs is None:
                        return False, 'member modified'
                    ok, why = percent_free(fb, g, rhs, depth + 1, seen)
                    if not ok:
                        return False, 'member %s assigned %s' % (name, g.text(rhs)[:50])
                    n += 1
            if 'stringstream' in (v.get('t') or ''):
                for a in _stream_insertions(g, 'this.' + name):
                    ok, why = percent_free(fb, g, a, depth + 1, seen)
                    if not ok:
                        return False, 'member stream %s receives %s' % (name, g.text(a)[:50])
                    n += 1
        return (n > 0), 'member assigned only percent-free text' if n else 'no visible assignment of member'
    return False, 'cannot prove %s percent-free' % f.text(s)[:60]


def check(ctx, rid, file_filter=None):
    n = 0
    fams = {}
    for f, nid, cal, arg, fam in format_sites(ctx.fb, file_filter):
        n += 1
        fams[fam] = fams.get(fam, 0) + 1
        ok = literal_format(f, arg)
        why = 'string literal'
        key = f.key(arg)
        if not ok and forwards_own_format(f, arg):
            ok, why = True, 'variadic wrapper forwarding its own format parameter'
        if not ok and fam != 'scanf':
            ok, why = percent_free(ctx.fb, f, arg)
            if ok:
                why = 'not a literal but provably free of conversion specifications: ' + why
            else:
                why = 'format argument of %s is not a literal and may contain conversion specifications: %s' % (cal, why)
        elif not ok:
            why = 'format argument of %s is not a literal: %s (the text being parsed is used as the format; ' \
                  'conversions in it write through the following pointer arguments)' % (cal, f.text(arg))
        if not ok and (f.name, key) in ALLOW:
            ok, why = True, 'allow-listed: ' + ALLOW[(f.name, key)]
        ctx.ob(rid, f, nid, ok, '%s(format=%s)' % (cal.split('::')[-1], key if not literal_format(f, arg) else 'literal'),
               why, nontrivial=not literal_format(f, arg))
    return n, fams
