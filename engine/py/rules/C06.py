"""C06 - what is read can be written back (necessary structural conditions only; weak claim).

C06.R1 reader and writer of each codec consult the same layout flags / layout members (declared asymmetries excepted)
C06.R2 both directions traverse the bytes in the same order (REV handling) and use the same place value step
C06.R3 TEM_P: decode(encode(group, number)) is the identity on bits for master and slave layout
C06.R4 value list encoding compares the text with the value names before it falls back to a raw number
"""
import facts
from facts import AnalysisBroken
import rules.bits as bits
import rules.typetable as T

ASYM = {
    'FIX': 'output padding only (decode side)',
    'IGN': 'fill with replacement only (encode side)',
    'REZ': 'decode-side alias of zero to null for dates',
    'DAY': 'weekday names are resolved by the field classes',
    'ADJ': 'length adjustment is resolved when the field is created',
}
ASYM_CODEC = {'string': {'REQ': 'qualifies the ignore-fill of the encode side only'}}
PAIRS = {
    'number': (['ebusd::NumberDataType::readRawValue', 'ebusd::NumberDataType::readFromRawValue', 'ebusd::NumberDataType::checkValueRange'],
               ['ebusd::NumberDataType::parseInput', 'ebusd::NumberDataType::writeRawValue', 'ebusd::NumberDataType::checkValueRange']),
    'datetime': (['ebusd::DateTimeDataType::readSymbols'], ['ebusd::DateTimeDataType::writeSymbols']),
    'string': (['ebusd::StringDataType::readSymbols'], ['ebusd::StringDataType::writeSymbols']),
}
LAYOUT_MEMBERS = ('m_firstBit', 'm_isHex', 'm_resolution', 'm_hasDate', 'm_hasTime', 'm_divisor', 'm_bitCount')


def consulted(fb, names, fl):
    inv = {v: k for k, v in fl.items() if k in T.FLAG_NAMES}
    flags, members = set(), set()
    for n in names:
        fn = fb.fn(n)
        for c in fn.calls('ebusd::DataType::hasFlag', suffix=False):
            v = fn.val(fn.nodes[c]['args'][0])
            if v in inv:
                flags.add(inv[v])
        for c in fn.calls('ebusd::DataType::isIgnored', suffix=False):
            flags.add('IGN')
        for nid, v in fn.nodes.items():
            if v['k'] == 'MemberExpr' and v.get('this') and v.get('name') in LAYOUT_MEMBERS:
                members.add(v['name'])
    return flags, members


def r1(ctx):
    ctx.rule('C06.R1', 'for each codec pair (number, date/time, string) the decode side and the encode side consult the same '
             'set of layout flags through hasFlag() and the same layout members; differences are limited to the declared '
             'one-sided flags (%s)' % ', '.join('%s: %s' % kv for kv in sorted(ASYM.items())), minimum=3)
    fb = ctx.fb
    fl = T.flags(fb)
    for name, (rd, wr) in sorted(PAIRS.items()):
        for n in rd + wr:
            ctx.touch(fb.fn(n))
        rf, rm = consulted(fb, rd, fl)
        wf, wm = consulted(fb, wr, fl)
        diff = (rf ^ wf) - set(ASYM) - set(ASYM_CODEC.get(name, {}))
        mdiff = (rm ^ wm) - ({'m_bitCount', 'm_divisor'} if name != 'number' else set())
        fn = fb.fn(rd[0])
        ctx.ob('C06.R1', fn, fn.body, not diff and not mdiff, '%s codec flag sets' % name,
               'decode %s / encode %s; one-sided flags not declared: %s; members differing: %s' % (
                   sorted(rf), sorted(wf), sorted(diff), sorted(mdiff)))


def r2(ctx):
    ctx.rule('C06.R2', 'NumberDataType::readRawValue and writeRawValue both start at the last byte and step backwards exactly '
             'under hasFlag(REV), step the place value by 100 under BCD and by 8 bits otherwise, and shift by m_firstBit in '
             'opposite directions', minimum=4)
    fb = ctx.fb
    fl = T.flags(fb)
    rd = fb.fn('ebusd::NumberDataType::readRawValue')
    wr = fb.fn('ebusd::NumberDataType::writeRawValue')
    info = {}
    import re as _re
    for fn in (rd, wr):
        ctx.touch(fn)
        d = {}
        # role-normalised text: parameters by position, so that both siblings compare equal whatever their names
        def norm(k):
            for i, p in enumerate(fn.params):
                if p.get('name'):
                    k = _re.sub(r'(?<![\w.])%s(?![\w(])' % _re.escape(p['name']), 'P%s' % p.get('t', i).split(' ')[0][:6], k)
            return k
        rev_assigns = []
        for nid, dd, rhs, op, lhs in fn.assignments():
            if rhs is None or not dd:
                continue
            atoms = set((a[0], a[1]) for a in fn.atoms(nid))
            rev = ('this.hasFlag(#%d)' % fl['REV'], True) in atoms
            bcd = ('this.hasFlag(#%d)' % fl['BCD'], True) in atoms
            k = norm(fn.key(rhs))
            if rev and op == '=':
                rev_assigns.append(k)
            if op == '*=':
                d['step_bcd' if bcd else 'step_other'] = (op, k)
            if op == '<<=' and 'm_firstBit' not in k:
                d['step_bin'] = (op, k)
        rev_assigns.sort()
        d['start_rev'] = [k for k in rev_assigns if k != '#-1']
        d['incr_rev'] = [k for k in rev_assigns if k == '#-1']
        shifts = [(v['op'], fn.key(v['rhs'])) for nid, v in fn.nodes.items() if v['k'] == 'CompoundAssignOperator' and
                  v.get('op') in ('<<=', '>>=') and 'm_firstBit' in fn.key(v['rhs'])]
        d['firstbit'] = shifts
        info[fn.name] = d
    a, b = info[rd.name], info[wr.name]
    for key in ('start_rev', 'incr_rev', 'step_bcd', 'step_bin'):
        ok = bool(a.get(key)) and a.get(key) == b.get(key)
        ctx.ob('C06.R2', rd, rd.body, ok, 'traversal %s' % key, 'decode %s / encode %s' % (a.get(key), b.get(key)))
    okf = [s[0] for s in a['firstbit']] == ['>>='] and [s[0] for s in b['firstbit']] == ['<<=']
    ctx.ob('C06.R2', rd, rd.body, okf, 'first bit shift', 'decode %s / encode %s' % (a['firstbit'], b['firstbit']))


def r3(ctx):
    ctx.rule('C06.R3', 'TEM_P: with the group limited to 5 bits and the number to 7 bits by the dominating range check, the bits '
             'written for master and slave layout are read back into the same group and number (bit provenance of the '
             'encode expression composed with the decode expressions)', minimum=4)
    fb = ctx.fb
    rd = fb.fn('ebusd::TemParamDataType::readSymbols')
    wr = fb.fn('ebusd::TemParamDataType::writeSymbols')
    ctx.touch(rd)
    ctx.touch(wr)
    enc = {}
    # roles: the two bounded locals (group <= 0x1f, number <= 0x7f) and the output/input symbol strings
    wg = wn = None
    encs = [wr.key(rhs) for nid, d, rhs, op, lhs in wr.assignments() if rhs is not None and '<<' in wr.key(rhs) and '|' in wr.key(rhs)]
    for b in wr.blocks.values():
        if b.cond is None:
            continue
        for x in wr.walk(b.cond):
            xv = wr.nodes[x]
            if xv['k'] == 'BinaryOperator' and xv.get('op') == '>' and wr.val(xv['rhs']) in (0x1f, 0x7f):
                nm = wr.key(xv['lhs'])
                if not any(facts.Explorer._mentions(e, nm) for e in encs):
                    continue
                if wr.val(xv['rhs']) == 0x1f:
                    wg = nm
                else:
                    wn = nm
    if not wg or not wn:
        raise AnalysisBroken('C06.R3: TEM_P range check (group > 0x1f / number > 0x7f) not found')
    wout = wr.P(3)
    for nid, d, rhs, op, lhs in wr.assignments():
        if d and rhs is not None and (wg in wr.key(rhs) and wn in wr.key(rhs)) and '<<' in wr.key(rhs):
            atoms = set((a[0], a[1]) for a in wr.atoms(nid))
            master = ('%s.isMaster()' % wout, True) in atoms
            guard = ('(%s <= #31)' % wg, True) in atoms and ('(%s <= #127)' % wn, True) in atoms
            env = {wg: bits.var('grp', 5), wn: bits.var('num', 7)}
            enc['master' if master else 'slave'] = (bits.evaluate(wr, rhs, env), guard, nid)
    dec = {}
    rin = rd.P(2)
    rval = rd.outarg('::readRawValue', 3) or 'value'
    for nid, d, rhs, op, lhs in rd.assignments():
        if d and rhs is not None and op == '=' and rval in rd.key(rhs) and '&' in rd.key(rhs):
            atoms = set((a[0], a[1]) for a in rd.atoms(nid))
            master = ('%s.isMaster()' % rin, True) in atoms
            # which field: by the mask width (0x1f -> group, 0x7f -> number)
            k = rd.key(rhs)
            role = 'grp' if '#31' in k else ('num' if '#127' in k else None)
            if role:
                dec.setdefault('master' if master else 'slave', {})[role] = rhs
    for side in ('master', 'slave'):
        if side not in enc or side not in dec or len(dec[side]) != 2:
            raise AnalysisBroken('C06.R3: TEM_P %s layout expressions not recognised' % side)
        wbits, guard, wn = enc[side]
        ctx.ob('C06.R3', wr, wn, guard, 'TEM_P %s encode guarded' % side, 'group <= 0x1f and number <= 0x7f dominate the encoding: %s' % guard)
        for nm, width in (('grp', 5), ('num', 7)):
            got = bits.evaluate(rd, dec[side][nm], {rval: wbits})
            ok = got[:width] == [('v', nm, i) for i in range(width)] and all(x == 0 for x in got[width:16])
            ctx.ob('C06.R3', rd, dec[side][nm], ok, 'TEM_P %s %s round trip' % (side, nm), 'decoded bits %s' % got[:8])


def r4(ctx):
    ctx.rule('C06.R4', 'ValueListDataField::writeSymbols compares the text with every value name before it interprets it as a '
             'raw number (decoding prints names, and a name may itself look like a number): the lookup of a parsed number among '
             'the keys (m_values.find) is reached only behind the scan over the names (a loop over the entries or std::find_if '
             'comparing .second), and a raw number is accepted only if it is a key of the list', minimum=2)
    fb = ctx.fb
    fn = fb.fn('ebusd::ValueListDataField::writeSymbols')
    ctx.touch(fn)
    parses = fn.calls('strtoul', 'strtol', 'ebusd::parseInt', suffix=False)
    # the scan over the names
    loopconds = [b.id for b in fn.blocks.values() if b.cond is not None and '__begin' in fn.key(b.cond)]
    name_cmp = [b.id for b in fn.blocks.values() if b.cond is not None and '.second' in fn.key(b.cond) and '==' in fn.key(b.cond)]
    scans = set(c for c in fn.all('CallExpr') if (fn.nodes[c].get('callee') or '').startswith('std::find_if') and
                any('this.m_values' in fn.key(a) for a in fn.nodes[c].get('args', [])))
    keylook = [c for c in fn.all('CXXMemberCallExpr') if (fn.nodes[c].get('callee') or '').split('::')[-1] == 'find' and
               fn.key(fn.nodes[c].get('obj', -1)) == 'this.m_values']
    if not parses or not keylook or not ((loopconds and name_cmp) or scans):
        raise AnalysisBroken('C06.R4: scan over the names, numeric parse or key lookup not found')
    for k in keylook:
        if loopconds and name_cmp:
            ok = fn.block_of(k) not in fn.reach([fn.entry], cut_blocks=loopconds)
        else:
            ok = not fn.reaches_point(fn.entry, fn.pos(k), scans)
        ctx.ob('C06.R4', fn, k, ok, 'key lookup of a parsed number', 'reached only behind the scan over the value names: %s' % ok)
    writes = [c for c in fn.calls('ebusd::NumberDataType::writeRawValue', suffix=False)]
    okk = any(('m_values.find(' in k_ and not pol) or ('m_values.end()' in k_ and not pol) for c in writes
              for k_, pol in ((a[0], a[1]) for a in fn.atoms(c)))
    ctx.ob('C06.R4', fn, fn.body, okk, 'raw number must be a key', 'membership test before writing a raw number: %s' % okk)


def r8(ctx):
    ctx.rule('C06.R8', 'the text of a number is parsed in the base it was printed in: every strtol/strtoul of the field input '
             'parsers gets base 10 (or 16 for an explicit 0x prefix), never the automatic base 0, which reads the leading '
             'zeros that fixed-width types (PIN) print as octal notation', minimum=3)
    fb = ctx.fb
    n = 0
    for fn in fb.functions:
        if not fn.relfile.startswith('src/lib/ebus/data') or not fn.blocks:
            continue
        if not (fn.name.endswith('::parseInput') or fn.name.endswith('::writeSymbols')):
            continue
        for c in fn.all('CallExpr'):
            v = fn.nodes[c]
            if v.get('callee') not in ('strtol', 'strtoul', 'strtoll', 'strtoull') or len(v.get('args', [])) < 3:
                continue
            n += 1
            b = v['args'][2]
            vals = set()
            if fn.val(b) is not None:
                vals = {fn.val(b)}
            else:
                d = fn.ref_decl(b)
                for nid, d2, rhs, op, lhs in fn.assignments():
                    if d2 == d and rhs is not None:
                        r = fn.nodes.get(fn.strip(rhs), {})
                        if r.get('k') == 'ConditionalOperator':
                            vals |= {fn.val(r['then']), fn.val(r['else'])}
                        else:
                            vals.add(fn.val(rhs))
            ok = bool(vals) and vals <= {10, 16}
            ctx.ob('C06.R8', fn, c, ok, 'number base of %s in %s' % (v['callee'], fn.name.split('::')[-1]),
                   'base argument can be %s' % sorted(vals, key=lambda x: (x is None, x)))
    if n < 3:
        raise AnalysisBroken('C06.R8: only %d strto* calls found in the field input parsers' % n)


def boundary_rule(ctx, rid):
    """exactness of the n-bit range tests of NumberDataType::parseInput, decided by evaluating each rejection condition
    (a boolean expression over the parsed wide value, the bit count and constants - nothing else of the program) on the
    boundary points of the n-bit range for n = 8, 16 and 32; also for the float entry point getRawValueFromFloat"""
    ctx.rule(rid, 'the range tests of NumberDataType::parseInput reject exactly the values outside the n-bit range of the type: '
             'signed types accept -2^(n-1) .. 2^(n-1)-1, unsigned types 0 .. 2^n-1, decided for each rejection condition '
             'on the five boundary points around each limit (n = 8, 16, 32). A test that is too lax lets a value wrap into '
             'the sign bit or the next field (C07), one that is too strict rejects a text that decoding produces (C06)',
             minimum=6, star=True)
    fb = ctx.fb
    total = 0
    # the SIG flag: the hasFlag() atom under which the strtol (signed) parse of parseInput sits
    pi = fb.fn('ebusd::NumberDataType::parseInput')
    sigkey = None
    for nid, d, rhs, op, lhs in pi.assignments():
        if rhs is not None and any(pi.nodes[x].get('callee') == 'strtol' for x in pi.walk(rhs)):
            for k3, p3 in ((a[0], a[1]) for a in pi.atoms(nid)):
                if k3.startswith('this.hasFlag(#') and p3:
                    sigkey = k3
    if sigkey is None:
        raise AnalysisBroken('%s: signed parse branch of parseInput not found' % rid)
    seen = set()
    for f in fb.functions:
        if f.cls != 'ebusd::NumberDataType' or not f.blocks or (f.name, f.sig) in seen:
            continue
        seen.add((f.name, f.sig))
        total += _boundary_fn(ctx, rid, f, sigkey)
    if total < 6:
        raise AnalysisBroken('%s: only %d range tests recognised' % (rid, total))


def _boundary_fn(ctx, rid, fn, sigkey):
    fb = ctx.fb
    ctx.touch(fn)
    oor = None
    for en, e in fb.enums.items():
        for x in e['enumerators']:
            if x['name'] == 'RESULT_ERR_OUT_OF_RANGE':
                oor = x['v']
    wide = {}
    for prm in fn.params:
        if (prm.get('t') or '') in ('float', 'double') and prm.get('decl'):
            wide[prm['decl']] = prm['name']
    grew = True
    while grew:
        grew = False
        for nid, d, rhs, op, lhs in fn.assignments():
            if d and d not in wide and rhs is not None and op == 'init':
                direct = any(fn.nodes[x].get('callee') in ('strtol', 'strtoul', 'strtod') for x in fn.walk(rhs))
                r0 = fn.nodes.get(fn.strip(rhs, casts=True), {})
                copy = r0.get('k') == 'DeclRefExpr' and r0.get('decl') in wide
                if direct or copy:
                    wide[d] = d.split(':')[-1]
                    grew = True

    def ev(x, env):
        x = fn.strip(x, casts=True)
        v = fn.nodes[x]
        k = v['k']
        if k == 'FloatingLiteral':
            try:
                return float(v.get('fv'))
            except (TypeError, ValueError):
                return None
        if k == 'DeclRefExpr':
            if v.get('decl') in env:
                return env[v['decl']]
            if v.get('name') in env:
                return env[v['name']]
        if k == 'MemberExpr' and v.get('name') == 'm_bitCount':
            return env['m_bitCount']
        if fn.val(x) is not None:
            return fn.val(x)
        if k == 'UnaryOperator' and v.get('op') in ('-', '!'):
            a = ev(v['ch'][0], env)
            return None if a is None else (-a if v['op'] == '-' else (not a))
        if k == 'ConditionalOperator':
            c = ev(v['cond'], env)
            if c is None:
                return None
            return ev(v['then'] if c else v['else'], env)
        if k in ('CallExpr', 'CXXMemberCallExpr'):
            cal = (v.get('callee') or '').split('::')[-1]
            if cal == 'hasFlag' and '__sig' in env and sigkey and fn.key(x) == sigkey:
                return bool(env['__sig'])
            if cal in ('isnan', 'isinf'):
                return False
            args = [ev(a, env) for a in v.get('args', [])]
            if cal in ('fabs', 'abs', 'labs', 'llabs', 'fabsf') and args and args[0] is not None:
                return abs(args[0])
            if cal in ('exp2', 'exp2f') and args and args[0] is not None:
                return 2 ** args[0]
            return None
        if k == 'BinaryOperator':
            op = v['op']
            if op in ('&&', '||'):
                a, b = ev(v['lhs'], env), ev(v['rhs'], env)
                if op == '||':
                    return True if (a is True or b is True) else (False if (a in (False, None) and b in (False, None)) else None)
                return False if (a is False or b is False) else (True if (a is True and b is True) else None)
            a, b = ev(v['lhs'], env), ev(v['rhs'], env)
            if a is None or b is None:
                return None
            try:
                return {'+': lambda: a + b, '-': lambda: a - b, '*': lambda: a * b, '<<': lambda: int(a) << int(b),
                        '/': lambda: (a // b if isinstance(a, int) and isinstance(b, int) else a / b),
                        '<': lambda: a < b, '<=': lambda: a <= b, '>': lambda: a > b, '>=': lambda: a >= b,
                        '==': lambda: a == b, '!=': lambda: a != b}[op]()
            except (KeyError, ValueError, TypeError):
                return None
        return None
    n = 0
    for r in fn.all('ReturnStmt'):
        if fn.val(fn.nodes[r].get('val')) != oor:
            continue
        p = fn.parent(r)
        while p is not None and fn.nodes[p]['k'] != 'IfStmt':
            p = fn.parent(p)
        if p is None:
            continue
        cond = fn.nodes[p]['cond']
        used = [d for d in wide if any(fn.nodes[x].get('k') == 'DeclRefExpr' and fn.nodes[x].get('decl') == d for x in fn.walk(cond))]
        if len(used) != 1:
            continue
        wd = used[0]
        atoms = dict((a[0], a[1]) for a in fn.atoms(p))
        sig0 = atoms.get(sigkey) if sigkey else None
        mentions_sig = sigkey and any(sigkey == fn.key(y) for y in fn.walk(cond)) or any(
            fn.nodes[y].get('k') == 'DeclRefExpr' and any(d2 == fn.nodes[y].get('decl') and r2 is not None and sigkey and sigkey in fn.key(r2)
                                                          for _, d2, r2, _, _ in fn.assignments()) for y in fn.walk(cond))
        if sig0 is None and not mentions_sig:
            continue
        for sig in ([sig0] if sig0 is not None else [True, False]):
          n += 1
          # declared locals of the condition (e.g. max = exp2(m_bitCount - 1)) are resolved through their initialiser
          problems = []
          for bits_ in (8, 16, 32):
              if ('(this.m_bitCount == #32)', False) in atoms.items() and bits_ == 32:
                  continue
              lo, hi = (-(2 ** (bits_ - 1)), 2 ** (bits_ - 1) - 1) if sig else (0, 2 ** bits_ - 1)
              for val in (lo - 2, lo - 1, lo, lo + 1, hi - 1, hi, hi + 1, hi + 2):
                  env = {wd: val, 'm_bitCount': bits_, '__sig': sig}
                  for nid, d, rhs, op, lhs in fn.assignments():
                      if op == 'init' and d and d not in wide and rhs is not None and \
                              any(fn.nodes[x].get('k') == 'DeclRefExpr' and fn.nodes[x].get('decl') == d for x in fn.walk(cond)):
                          env[d] = ev(rhs, dict(env))
                  rej = ev(cond, env)
                  # values that cannot reach this test (a dominating test on the same variable sends them elsewhere, e.g. to
                  # another error return) count as rejected
                  import re as _re
                  for a_ in fn.atoms(p):
                      m_ = _re.match(r'^\(%s (<|<=|==) (?:#(-?\d+)|f(-?[\d.]+))\)$' % _re.escape(wide[wd]), a_[0])
                      if m_:
                          c_ = int(m_.group(2)) if m_.group(2) is not None else float(m_.group(3))
                          holds = {'<': val < c_, '<=': val <= c_, '==': val == c_}[m_.group(1)]
                          if holds != bool(a_[1]):
                              rej = True
                  want = val < lo or val > hi
                  if not sig and val < 0 and 'unsigned long' in ''.join((fn.nodes[x].get('t') or '') for x in fn.walk(cond) if fn.nodes[x].get('decl') == wd):
                      continue    # an unsigned long cannot hold a negative value: the sign is tested on the text (C07.R6)
                  if rej is None:
                      rej = False
                  if bool(rej) != want:
                      problems.append('%d-bit %s value %d is %s' % (bits_, 'signed' if sig else 'unsigned', val, 'rejected' if rej else 'accepted'))
          ctx.ob(rid, fn, p, not problems, '%s range test of %s' % ('signed' if sig else 'unsigned', wide[wd]),
                 '; '.join(problems[:4]) or 'rejects exactly the values outside the n-bit range (24 boundary points)')
    return n


def r10(ctx):
    ctx.rule('C06.R10', 'a built-in table that becomes a value list maps one-to-one: every constant string table whose elements '
             'SingleDataField::create stores as names of a value list (the week day names of BDY/HDY) has pairwise different, '
             'non-empty entries - with a repeated name two raw values decode to the same text and the text encodes to the '
             'first of them only', minimum=1)
    fb = ctx.fb
    fn = fb.fn('ebusd::SingleDataField::create')
    ctx.touch(fn)
    n = 0
    done = set()
    for x in fn.all('ArraySubscriptExpr'):
        b = fn.nodes[fn.strip(fn.nodes[x]['base'], casts=True)]
        if b.get('k') != 'DeclRefExpr' or not b.get('qn') or b['qn'] not in fb.globals or b['qn'] in done:
            continue
        g = fb.globals[b['qn']]
        if not isinstance(g.get('init'), list) or 'char' not in (g.get('t') or ''):
            continue
        # stored into a map element: parent chain reaches an operator= whose target is a subscript of a map
        stored = any(fn.nodes[a].get('k') == 'CXXOperatorCallExpr' and fn.nodes[a].get('op') == '=' for a in fn.ancestors(x))
        if not stored:
            continue
        done.add(b['qn'])
        n += 1
        ent = g['init']
        dup = sorted(set(e for e in ent if ent.count(e) > 1))
        ok = not dup and all(ent) and len(ent) == g.get('arr')
        ctx.ob('C06.R10', fn, x, ok, 'table %s' % b['qn'].split('::')[-1], 'repeated entries %s' % dup if dup else
               ('%d distinct names' % len(ent) if ok else 'empty or missing entries in %s' % ent))
    if n < 1:
        raise AnalysisBroken('C06.R10: no constant name table is stored into a value list in SingleDataField::create')


def r13(ctx):
    ctx.rule('C06.R13', 'one century for the two-digit year: the year byte of a date stands for 2000 + byte on decoding '
             '(DateTimeDataType::readSymbols prints 2000 + symbol), so every place where writeSymbols completes a year below '
             '100 adds that same constant, and the year byte is stored as year - that constant; a different pivot in one '
             'copy gives the weekday or the day number of another century', minimum=3)
    fb = ctx.fb
    rd = fb.fn('ebusd::DateTimeDataType::readSymbols')
    wr = fb.fn('ebusd::DateTimeDataType::writeSymbols')
    ctx.touch(rd)
    ctx.touch(wr)
    cent = set()
    raw = set(d for nid, d, rhs, op, lhs in rd.assignments() if d and rhs is not None and '.dataAt(' in rd.key(rhs))
    for x, v in rd.nodes.items():
        if v['k'] == 'BinaryOperator' and v.get('op') == '+' and 1800 <= (rd.val(v['lhs']) or rd.val(v['rhs']) or 0) <= 2200 and \
                any(rd.nodes[a].get('k') == 'CXXOperatorCallExpr' and rd.nodes[a].get('op') == '<<' for a in rd.ancestors(x)) and \
                any(rd.ref_decl(o) in raw for o in (v['lhs'], v['rhs'])):
            cent.add(rd.val(v['lhs']) or rd.val(v['rhs']))
    if len(cent) != 1:
        raise AnalysisBroken('C06.R13: century added when a year is printed not found (%s)' % sorted(cent))
    c = cent.pop()
    n = 0
    for x, v in sorted(wr.nodes.items()):
        if v['k'] != 'ConditionalOperator':
            continue
        cv = wr.nodes[wr.strip(v['cond'], casts=True)]
        if cv.get('k') != 'BinaryOperator' or cv.get('op') != '<' or wr.val(cv['rhs']) != 100:
            continue
        t = wr.nodes[wr.strip(v['then'], casts=True)]
        add = (wr.val(t['lhs']) or wr.val(t['rhs'])) if t.get('k') == 'BinaryOperator' and t.get('op') == '+' else None
        n += 1
        ctx.ob('C06.R13', wr, x, add == c, 'completion of a two-digit year', 'adds %s, decoding adds %s' % (add, c))
    for nid, d, rhs, op, lhs in wr.assignments():
        if op == '-=' and rhs is not None and 1800 <= (wr.val(rhs) or 0) <= 2200:
            n += 1
            ctx.ob('C06.R13', wr, nid, wr.val(rhs) == c, 'year byte stored', 'subtracts %s, decoding adds %s' % (wr.val(rhs), c))
    # the day number (and with it the weekday) is computed from the completed year: where writeSymbols forms year - 1900 for
    # the calendar formula, the year operand is the two-digit completion (value < 100 ? value + century : value)
    for nid, d, rhs, op, lhs in wr.assignments():
        if rhs is None:
            continue
        r = wr.nodes[wr.strip(rhs, casts=True)]
        if r.get('k') == 'BinaryOperator' and r.get('op') == '-' and wr.val(r['rhs']) == 1900:
            n += 1
            has = any(wr.nodes[y]['k'] == 'ConditionalOperator' and wr.val(wr.nodes[wr.strip(wr.nodes[y]['cond'], casts=True)].get('rhs', -1)) == 100
                      for y in wr.walk(r['lhs']))
            ctx.ob('C06.R13', wr, nid, has, 'year handed to the calendar formula', 'a two-digit year is completed first: %s (%s)' % (has, wr.key(rhs)[:60]))
    if n < 3:
        raise AnalysisBroken('C06.R13: only %d century sites found in writeSymbols' % n)


def r14(ctx):
    ctx.rule('C06.R14', 'the numbers a value list field prints are the keys its writer looks up: ValueListDataField::writeSymbols '
             'parses a number as unsigned (strtoul, no sign accepted) and looks it up as key; so everything '
             'ValueListDataField::readSymbols prints comes from its own operator<< on the unsigned raw value, the entry of the '
             'list or a literal - the output stream is handed to no other function (a signed rendering by the number type '
             'could not be written back)', minimum=8)
    fb = ctx.fb
    fn = fb.fn('ebusd::ValueListDataField::readSymbols')
    ctx.touch(fn)
    outp = fn.P(3)
    raw = fn.outarg('DataType::readRawValue', 3)
    if raw is None:
        raise AnalysisBroken('C06.R14: the raw value of ValueListDataField::readSymbols was not recognised')
    n = 0
    for c in fn.calls():
        v = fn.nodes[c]
        args = v.get('args', [])
        keys = [fn.key(a) for a in args]
        if not any(k in (outp, '*' + outp) for k in keys):
            continue
        n += 1
        isop = v['k'] == 'CXXOperatorCallExpr' and v.get('op') == '<<'
        ctx.ob('C06.R14', fn, c, isop, 'use of the output stream', 'by operator<< of this function: %s (callee %s)' % (isop, v.get('callee')))
    for c in fn.calls():
        v = fn.nodes[c]
        if v['k'] != 'CXXOperatorCallExpr' or v.get('op') != '<<' or len(v.get('args', [])) != 2:
            continue
        a = fn.nodes[fn.strip(v['args'][1], casts=True)]
        t = a.get('t') or ''
        if a.get('k') == 'DeclRefExpr' and a.get('rk') in ('local', 'param') and a.get('w') and not a.get('bool') and 'char' not in t:
            n += 1
            ok = fn.key(v['args'][1]) == raw and not a.get('sg')
            ctx.ob('C06.R14', fn, c, ok, 'number printed', 'the unsigned raw value %s itself: %s' % (raw, ok))
    if n < 8:
        raise AnalysisBroken('C06.R14: only %d output operations recognised in ValueListDataField::readSymbols' % n)


def r15(ctx):
    ctx.rule('C06.R15', 'a fixed-point value is printed with enough decimals to be read back: NumberDataType::calcPrecision(d), '
             'evaluated from its typed AST for every divisor 2..4096, the powers of ten up to the maximum divisor with their '
             'neighbours and the powers of two up to it, returns the smallest p with 10^p >= d (0 for d <= 1); with fewer '
             'decimals two neighbouring raw values print the same text and the text encodes to another raw value than it '
             'was decoded from', minimum=1)
    import tinyeval
    fb = ctx.fb
    fn = fb.fn('ebusd::NumberDataType::calcPrecision')
    ctx.touch(fn)
    maxdiv = None
    for g in fb.globals:
        pass
    mv = facts.macro_values(['lib/ebus/datatype.h'], ['MAX_DIVISOR'])
    maxdiv = mv.get('MAX_DIVISOR')
    if not maxdiv:
        raise AnalysisBroken('C06.R15: MAX_DIVISOR not found')
    ds = set(range(-3, 4097))
    p10 = 1
    while p10 <= maxdiv:
        ds |= {p10 - 1, p10, p10 + 1}
        p10 *= 10
    p2 = 1
    while p2 <= maxdiv:
        ds |= {p2, p2 + 1}
        p2 *= 2
    bad = []
    try:
        for d in sorted(x for x in ds if x <= maxdiv):
            got = tinyeval.run(fn, {}, [d])
            want = 0
            while d > 1 and 10 ** want < d:
                want += 1
            if got != want and len(bad) < 4:
                bad.append('divisor %d: %s decimals, needed %d' % (d, got, want))
    except (tinyeval.Unknown, tinyeval.OutOfBounds) as e:
        raise AnalysisBroken('C06.R15: calcPrecision not evaluable (%s)' % e)
    ctx.ob('C06.R15', fn, fn.body, not bad, 'decimals for a divisor', 'smallest p with 10^p >= divisor for all %d divisors tried: %s%s' % (
        len(ds), not bad, '' if not bad else ' - ' + '; '.join(bad)))


def r17(ctx):
    ctx.rule('C06.R17', 'what the date+time decoder accepts the encoder can produce: the encoder (DateTimeDataType::writeSymbols) '
             'takes years up to a constant maximum; where the decoder turns minutes since the epoch 01.01.2009 (MJD offset '
             '54832) into a date, it has rejected every value beyond the last minute of that maximum year (bound computed '
             'from the two constants with the calendar) - otherwise a pattern decodes to a text that encoding refuses, and '
             'patterns far outside are shown as dates', minimum=1)
    import datetime
    fb = ctx.fb
    rd = fb.fn('ebusd::DateTimeDataType::readSymbols')
    wr = fb.fn('ebusd::DateTimeDataType::writeSymbols')
    ctx.touch(rd)
    ctx.touch(wr)
    years = [wr.val(wr.nodes[c]['args'][3]) for c in wr.calls('parseInt') if len(wr.nodes[c].get('args', [])) >= 4 and
             (wr.val(wr.nodes[c]['args'][3]) or 0) >= 1900]
    if not years:
        raise AnalysisBroken('C06.R17: the maximum year of the encoder was not found')
    maxyear = max(years)
    n = 0
    for nid, d, rhs, op, lhs in rd.assignments():
        if rhs is None or op != 'init':
            continue
        r = rd.nodes[rd.strip(rhs, casts=True)]
        if r.get('k') != 'BinaryOperator' or r.get('op') != '+':
            continue
        offs = [rd.val(r[s_]) for s_ in ('lhs', 'rhs')]
        if 54832 not in offs:
            continue
        other = r['lhs'] if offs[1] == 54832 else r['rhs']
        mins = None
        for y in rd.walk(other):
            yv = rd.nodes[y]
            if yv['k'] == 'DeclRefExpr' and yv.get('rk') == 'local' and (yv.get('w') or 0) >= 32:
                mins = yv.get('name')
        if mins is None:
            continue
        epoch = datetime.date(1858, 11, 17) + datetime.timedelta(days=54832)
        bound = (datetime.date(maxyear + 1, 1, 1) - epoch).days * 24 * 60 - 1
        n += 1
        ok = rd.needs_one_of(nid, [('(%s <= #%d)' % (mins, bound), True), ('(%s < #%d)' % (mins, bound + 1), True)])
        ctx.ob('C06.R17', rd, nid, ok, 'minutes since %s turned into a date' % epoch.strftime('%d.%m.%Y'),
               'reached only with %s <= %d (31.12.%d 23:59, the last value the encoder produces): %s' % (mins, bound, maxyear, ok))
    if n < 1:
        raise AnalysisBroken('C06.R17: the conversion of minutes since 2009 was not found in the decoder')


def r18(ctx):
    ctx.rule('C06.R18', 'the sign found by the range check reaches the decoder: every path of NumberDataType::checkValueRange to a '
             'return of RESULT_OK passes the store of the sign through the out-parameter (when one was handed over) - '
             'readFromRawValue starts with negative = false and prints an accepted negative pattern as an unsigned number, '
             'which the encoder then refuses', minimum=1)
    fb = ctx.fb
    fn = fb.fn('ebusd::NumberDataType::checkValueRange')
    ctx.touch(fn)
    pn = fn.P(1)
    stores = set(nid for nid, d, rhs, op, lhs in fn.assignments() if lhs is not None and fn.key(lhs) == '*' + pn)
    if not stores:
        raise AnalysisBroken('C06.R18: the store through the sign out-parameter was not found')
    cut = list(fn.edges_with_atom(pn, False)) + list(fn.edges_with_atom('(%s == #0)' % pn, True))
    n = 0
    for r in fn.all('ReturnStmt'):
        val = fn.nodes[r].get('val')
        if val is None:
            continue
        leaves = []
        def walk(x):
            x = fn.strip(x, casts=True)
            nd = fn.nodes[x]
            if nd['k'] == 'ConditionalOperator':
                walk(nd['then']); walk(nd['else'])
            else:
                leaves.append(fn.val(x))
        walk(val)
        if 0 not in leaves and None not in leaves:
            continue
        n += 1
        miss = fn.reaches_point(fn.entry, fn.pos(r), stores, cut_edges=cut)
        ctx.ob('C06.R18', fn, r, not miss, 'return that may be RESULT_OK', 'the sign was stored on every path to it: %s' % (not miss))
    if n < 1:
        raise AnalysisBroken('C06.R18: no return of RESULT_OK found in checkValueRange')


def run(ctx):
    r18(ctx)
    r17(ctx)
    r15(ctx)
    import rules.C07 as _c07
    ctx.borrow(_c07.r1, {'C07.R1': 'C06.R16'},
               'a text that decoding produced encodes back only if the parsed number reaches the raw value unharmed: a conversion to a narrower or signed type without a fitting bound turns the upper half of an unsigned 32 bit type into one pattern')
    r14(ctx)
    r13(ctx)
    r10(ctx)
    boundary_rule(ctx, 'C06.R9')
    r8(ctx)
    r1(ctx)
    r2(ctx)
    r3(ctx)
    r4(ctx)
    import rules.C05 as c05
    ctx.borrow(c05.r6, {'C05.R6': 'C06.R5'},
               'dates round-trip because the two day-count conversions are both the standard algorithm and therefore inverse')
    import rules.C12 as c12
    ctx.borrow(c12.r3, {'C12.R3': 'C06.R6'},
               'decoded text re-encodes only if numbers were printed in decimal whatever an earlier field left in the stream')
    ctx.borrow(c12.r5, {'C12.R5': 'C06.R7'},
               'decoded text re-encodes to the same bytes only if it was printed with the type\'s own precision')
    import rules.common as _common
    ctx.rule('C06.R11', 'arguments keep their roles across calls: at every call of a repository function in the field/data type sources (the same offsets, lengths and formats must reach decode and encode) whose arguments are named like parameters of the callee, no two of them are passed crosswise (argument i named like parameter j and argument j like parameter i)', minimum=15)
    _common.swapped_args_rule(ctx, 'C06.R11', ('src/lib/ebus/data',), 15)
    import rules.C12 as _c12
    _c12.errno_rule(ctx, 'C06.R12')
