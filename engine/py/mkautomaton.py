#!/usr/bin/env python3
"""maintenance tool (not part of any check): prints the difference between the reference automaton and the transitions
extracted from the current /repo, and with --write replaces the reference by the extraction. Updating the reference is a
deliberate act after a protocol-level behaviour change has been reviewed."""
import json
import os
import sys
sys.path.insert(0, os.path.dirname(os.path.abspath(__file__)))
import facts
import rules.automaton as A


def main():
    fb = facts.load()
    fn, sw, regs, edges, rmap = A.extracted_edges(fb)
    rows = []
    for e in edges:
        if not e['from']:
            continue
        rows.append({'from': e['from'], 'to': e['to'], 'result': e['result'], 'first': e['first'],
                     'require': [[k, p] for k, p in e['guards']]})
    old = json.load(open(A.SPEC))
    def sig(r):
        return json.dumps(r, sort_keys=True)
    a, b = set(sig(r) for r in old['edges']), set(sig(r) for r in rows)
    for x in sorted(a - b):
        print('- ' + x)
    for x in sorted(b - a):
        print('+ ' + x)
    if '--write' in sys.argv:
        old['edges'] = rows
        json.dump(old, open(A.SPEC, 'w'), indent=1)
        print('reference updated: %d transitions' % len(rows))


if __name__ == '__main__':
    main()
