#!/usr/bin/env python3
"""prepares a round of independently seeded changes: for every property a scratch worktree of /repo (/tmp/wt<N>_<id>) and a
prompt file (/tmp/r<N>prompts/<id>.txt) that contains only the property text, the worktree path and the generic task
(engine/seed_agent_prompt.txt) plus an optional steering paragraph.  Nothing of /verif is given to the agent.

  mk_seed_prompts.py <round> [steering text file] [property ids...]"""
import json
import os
import subprocess
import sys

VERIF = os.path.dirname(os.path.dirname(os.path.abspath(__file__)))


def main():
    rnd = sys.argv[1]
    steer = open(sys.argv[2]).read().strip() if len(sys.argv) > 2 and os.path.isfile(sys.argv[2]) else ''
    only = [a for a in sys.argv[2:] if a.startswith('C') and len(a) == 3]
    tmpl = open(os.path.join(VERIF, 'engine', 'seed_agent_prompt.txt')).read()
    out = '/tmp/r%sprompts' % rnd
    os.makedirs(out, exist_ok=True)
    for line in open(os.path.join(VERIF, 'properties.jsonl')):
        p = json.loads(line)
        pid = p['id']
        if only and pid not in only:
            continue
        wt = '/tmp/wt%s_%s' % (rnd, pid)
        if not os.path.isdir(wt):
            subprocess.check_call(['git', '-C', '/repo', 'worktree', 'add', '--detach', '-f', wt, 'HEAD'], stdout=subprocess.DEVNULL, stderr=subprocess.DEVNULL)
        prop = 'PROPERTY %s: %s\n%s\nQuantified over: %s\nWhere it lives (files): %s\nMechanisms: %s\nObserve at: %s' % (
            pid, p['title'], p['statement'], p['quantifier']['text'], ', '.join(p['anchors']['files']),
            '; '.join('%s (%s)' % (m['name'], m['where']) for m in p['anchors'].get('mechanism', [])),
            '; '.join(p['anchors'].get('observe_at', [])))
        txt = tmpl.replace('{WT}', wt).replace('{PROP}', prop)
        if steer:
            txt += '\n\nAdditional guidance for this round: ' + steer + '\n'
        open(os.path.join(out, pid + '.txt'), 'w').write(txt)
    print(out)


if __name__ == '__main__':
    main()
