#!/bin/sh
# usage: on_tree.sh <git-ref-of-/repo> [--patch file]... -- <check args>
# runs engine/py/check.py against a scratch export of /repo at <ref> (plus patches), outside /repo and /verif;
# evidence of such runs goes to a scratch dir as well (never to /verif/evidence).
set -e
HERE=$(cd "$(dirname "$0")" && pwd)
REF=$1; shift
PATCHES=""
while [ "$1" = "--patch" ]; do PATCHES="$PATCHES $2"; shift 2; done
[ "$1" = "--" ] && shift
S=$(mktemp -d /tmp/ebv_tree.XXXXXX)
trap 'rm -rf "$S"' EXIT
git -C /repo archive "$REF" src docs | tar -x -C "$S"
mkdir -p "$S/_build"
cp /repo/_build/config.h "$S/_build/config.h" 2>/dev/null || cp "$HERE/../.build/cfg/config.h" "$S/_build/config.h"
for p in $PATCHES; do
  if ! (cd "$S" && patch -p1 -s -f --dry-run < "$p" > /dev/null 2>&1); then echo "PATCH-DOES-NOT-APPLY $p"; rm -rf "$S"; exit 3; fi
  (cd "$S" && patch -p1 -s -f < "$p")
done
EBUSD_REPO="$S" VERIF_EVIDENCE_DIR="$S/evidence" python3 "$HERE/py/check.py" "$@"
