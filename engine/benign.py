#!/usr/bin/env python3
"""benign-refactor corpus: behaviour-preserving edits that must NOT make a check fire.

For a property it takes the functions the check analysed (evidence/<id>.json), applies one family of edits to a scratch
export of /repo HEAD (never to /repo itself) and runs the quick check against it:

  rename   every local variable and parameter of the analysed functions gets a new name
  mirror   comparisons `x == CONSTANT` / `x != CONSTANT` of simple operands are written `CONSTANT == x`
  noise    a harmless statement is inserted at the beginning of every analysed function
  respell  hexadecimal integer literals inside the analysed functions are respelled in decimal

exit 0 = all variants silent; 1 = a variant raised a VIOLATION (false alarm) ; 2 = a variant broke the analysis (exit 2)
or did not compile. Results are printed and returned as a dict for the thorough tier.
"""
import json
import os
import re
import shutil
import subprocess
import sys
import tempfile

VERIF = os.path.dirname(os.path.dirname(os.path.abspath(__file__)))
sys.path.insert(0, os.path.join(VERIF, 'engine', 'py'))

KEYWORDS = {'this', 'result', 'true', 'false', 'nullptr', 'return', 'value'}
FAMILIES = ('rename', 'mirror', 'noise', 'respell')


def export_tree(ref='HEAD'):
    d = tempfile.mkdtemp(prefix='ebv_benign.', dir='/tmp')
    p1 = subprocess.Popen(['git', '-C', '/repo', 'archive', ref, 'src', 'docs'], stdout=subprocess.PIPE)
    subprocess.check_call(['tar', '-x', '-C', d], stdin=p1.stdout)
    p1.wait()
    os.makedirs(os.path.join(d, '_build'), exist_ok=True)
    cfg = '/repo/_build/config.h'
    if not os.path.isfile(cfg):
        cfg = os.path.join(VERIF, '.build', 'cfg', 'config.h')
    shutil.copy(cfg, os.path.join(d, '_build', 'config.h'))
    return d


def analysed_functions(prop):
    """[(relfile, first line, last line, [local names])] from the fact base of /repo for the functions in the evidence"""
    import facts
    ev = json.load(open(os.path.join(VERIF, 'evidence', prop + '.json')))
    want = set(ev['coverage'].get('functions_analysed', []))
    fb = facts.load()
    out = []
    for fn in fb.functions:
        ident = '%s@%s:%d' % (fn.name, fn.relfile, fn.line)
        if ident not in want:
            continue
        out.append(function_entry(fn))
    return out


def function_entry(fn):
    names = set()
    for p in fn.params:
        if p.get('name'):
            names.add(p['name'])
    for nid, v in fn.nodes.items():
        if v['k'] == 'DeclStmt':
            for dd in v.get('decls', []):
                if dd.get('name') and not dd.get('static'):
                    names.add(dd['name'])
    # do not touch names that are also used as member names / other identifiers in the function
    members = set()
    for nid, v in fn.nodes.items():
        if v['k'] == 'MemberExpr' and v.get('name'):
            members.add(v['name'])
        if v['k'] == 'DeclRefExpr' and v.get('rk') in ('global', 'function', 'enumerator', 'staticmember') and v.get('name'):
            members.add(v['name'])
    names = sorted(n for n in names if n not in members and len(n) > 1 and not n.startswith('__'))
    bl = fn.nodes.get(fn.body, {}).get('l') if fn.body is not None else None
    return (fn.relfile, fn.line, fn.endline, names, fn.name + ('@%d' % bl if bl else ''))


def apply(tree, funcs, family):
    by_file = {}
    for rel, a, b, names, qn in funcs:
        by_file.setdefault(rel, []).append((a, b, names, qn))
    changed = 0
    for rel, items in by_file.items():
        path = os.path.join(tree, rel)
        try:
            lines = open(path, encoding='utf-8', errors='surrogateescape').read().split('\n')
        except OSError:
            continue
        for a, b, names, qn in sorted(items, reverse=True):
            seg = lines[a - 1:b]
            text = '\n'.join(seg)
            if family == 'rename':
                for n in names:
                    # not a member access, not part of a longer identifier, not inside a string literal (approximation:
                    # skip occurrences directly surrounded by quotes)
                    if n == qn.split('@')[0].split('::')[-1]:
                        continue
                    if re.search(r'(?<![\w.>])%s\s*[*&]?\s+\*?\s*[A-Za-z_]\w*\s*(=|;|,|\))' % re.escape(n), text) or \
                            re.search(r'\b%s\s*[*&]' % re.escape(n), text) and re.search(r'\b%s\s*\*\s*\w+\s*=' % re.escape(n), text):
                        continue  # the name is also used as a type name in this function
                    text, k = re.subn(r'(?<![\w.":])(?<!->)%s(?![\w"])' % re.escape(n), n + '_rn', text)
                    changed += k
            elif family == 'mirror':
                def sw(m):
                    return '%s %s %s' % (m.group(3), m.group(2), m.group(1))
                text, k = re.subn(r'(?<![\w*&.>\]\)+\-!~])(?<!->)([A-Za-z_]\w*(?:\[\d\])?)\s*(==|!=)\s*(0x[0-9a-fA-F]+|\d+|[A-Z][A-Z0-9_]{2,}|nullptr)\b(?!\s*[\(\[.])(?![.\w])',
                                  sw, text)
                changed += k
            elif family == 'noise':
                # the brace that opens the body (not one of a member initialiser or default argument)
                idx = text.find('{')
                if '@' in qn:
                    bl = int(qn.rsplit('@', 1)[1])
                    if a <= bl <= b:
                        off = sum(len(x) + 1 for x in seg[:bl - a])
                        j = text.find('{', off)
                        # a constructor with initialisers: the body brace is the last '{' of its line
                        ln_end = text.find('\n', off)
                        ln_end = len(text) if ln_end < 0 else ln_end
                        j2 = text.rfind('{', off, ln_end)
                        idx = j2 if j2 >= 0 else j
                if idx >= 0:
                    text = text[:idx + 1] + ' (void)0; ' + text[idx + 1:]
                    changed += 1
            elif family == 'respell':
                def dec(m):
                    return str(int(m.group(0), 16))
                text, k = re.subn(r'\b0x[0-9a-fA-F]{1,8}\b(?![uUlL])', dec, text)
                changed += k
            lines[a - 1:b] = text.split('\n')
        with open(path, 'w', encoding='utf-8', errors='surrogateescape') as fh:
            fh.write('\n'.join(lines))
    return changed


def run_check(tree, prop):
    env = dict(os.environ)
    env['EBUSD_REPO'] = tree
    env['VERIF_EVIDENCE_DIR'] = os.path.join(tree, 'evidence')
    r = subprocess.run([sys.executable, os.path.join(VERIF, 'engine', 'py', 'check.py'), prop, '--tier', 'quick'],
                       stdout=subprocess.PIPE, stderr=subprocess.STDOUT, universal_newlines=True, env=env, timeout=1800)
    return r.returncode, r.stdout


def run(prop, families=FAMILIES, verbose=True):
    funcs = analysed_functions(prop)
    res = {}
    for fam in families:
        tree = export_tree()
        try:
            n = apply(tree, funcs, fam)
            code, out = run_check(tree, prop)
            lines = [l for l in out.splitlines() if 'violated:' in l or 'ANALYSIS-BROKEN' in l or 'instance:' in l]
            res[fam] = {'edits': n, 'exit': code, 'report': lines[:8]}
            if verbose:
                print('%s %-8s edits=%-4d exit=%d %s' % (prop, fam, n, code, '' if code == 0 else ' | '.join(lines[:4])[:300]))
                sys.stdout.flush()
        finally:
            shutil.rmtree(tree, ignore_errors=True)
    return res


def main():
    props = [a for a in sys.argv[1:] if a.startswith('C')]
    fams = [a for a in sys.argv[1:] if a in FAMILIES] or FAMILIES
    worst = 0
    for p in props:
        r = run(p, fams)
        for fam, v in r.items():
            if v['exit'] == 1:
                worst = max(worst, 1) if worst != 2 else 2
            elif v['exit'] != 0:
                worst = 2
    sys.exit(worst)


if __name__ == '__main__':
    main()
